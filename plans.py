"""Per-property exploration plans: which TLC generator families, which driver kinds."""


def ops(*names):
    return "{" + ", ".join('"%s"' % n for n in names) + "}"


def gen(name, family, opset, wq=2, wt=3, **kw):
    g = {"name": name, "module": "Gen",
         "constants": {"Family": '"%s"' % family, "OpSet": ops(*opset), "RpSet": kw.pop("rp", "{0}")},
         "tier_constants": {"quick": {"Width": str(wq)}, "thorough": {"Width": str(wt)}}}
    g.update(kw)
    return g


ACC_OPS = ["value_api", "get_by_index", "get_by_name", "get_by_keypath", "array_length", "object_keys", "object_each",
           "array_values", "type_of", "casts", "exists_keys", "traverse"]
EDIT_OPS = ["delete_by_name", "delete_by_index", "delete_by_keypath", "strip_nulls", "object_delete", "object_pick",
            "array_insert", "object_insert"]

RN_ASSUMPTION = ("decimal<->binary64: a float lexeme's value is taken from a hint (Rust core's correctly rounded parser) "
                 "that the specification re-checks exactly with big-number arithmetic where the exponent is moderate")

PLANS = {
    "C01": {
        "drive": [{"kind": "codec", "count": {"quick": 4500, "thorough": 60000}}, {"kind": "rand", "count": {"quick": 300, "thorough": 3000}}],
        "gen": [gen("codec", "codec", ["roundtrip", "to_vec", "from_conv"]),
                gen("num", "num", ["roundtrip"])],
        "bounds": "all documents of depth<=1 width<=W over 8 atoms, depth 2 width 2 over 8 representative containers, 28 wide atoms; W=2 quick, 3 thorough",
    },
    "C05": {
        "must_see": ["get_by_index:bytes", "get_by_index:none", "get_by_name:bytes", "get_by_name:none", "get_by_keypath:bytes", "get_by_keypath:none", "object_keys:bytes", "object_keys:none", "type_of:name"],
        "drive": [{"kind": "acc", "count": {"quick": 4500, "thorough": 60000}}],
        "gen": [gen("acc", "acc", ACC_OPS)],
        "bounds": "every document of the bounded universe x every index -1..len+1, every present key/case variant/prefix/extension, every key path to depth+1",
    },
    "C06": {
        "must_see": ["delete_by_index:bytes", "delete_by_index:err", "object_insert:err", "object_insert:bytes", "delete_by_keypath:err", "delete_by_keypath:bytes", "object_delete:err"],
        "drive": [{"kind": "edit", "count": {"quick": 4500, "thorough": 60000}}, {"kind": "pairs:concat", "count": {"quick": 1500, "thorough": 16000}}, {"kind": "pairs_repr:concat", "count": {"quick": 1200, "thorough": 12000}}],
        "gen": [gen("edit", "edit", EDIT_OPS, wq=1, wt=2),
                gen("concat", "pairs", ["concat"]),
                gen("concat11", "pairs11", ["concat"], rp="{0, 2}"),
                gen("build", "build", ["build_array", "build_object"])],
        "bounds": "bounded universe x all positions -len-2..len+2, all key subsets <=3, all key paths to depth+1; builders: all lists <=3 with keys in every order and duplicates",
    },
    "C02": {
        "must_see": ["parse_value:doc", "parse_value:err"],
        "drive": [{"kind": "text", "count": {"quick": 4500, "thorough": 60000}}],
        "gen": [
            {"name": "corrupt", "module": "GenText", "constants": {"Family": '"corrupt"', "MaxLen": "0"}},
            {"name": "fixed", "module": "GenText", "constants": {"Family": '"fixed"', "MaxLen": "0"}},
            {"name": "numlex", "module": "GenText", "constants": {"Family": '"numlex"'}, "tier_constants": {"quick": {"MaxLen": "4"}, "thorough": {"MaxLen": "5"}}},
            {"name": "strlex", "module": "GenText", "constants": {"Family": '"strlex"'}, "tier_constants": {"quick": {"MaxLen": "3"}, "thorough": {"MaxLen": "4"}}},
            {"name": "soup", "module": "GenText", "constants": {"Family": '"soup"'}, "tier_constants": {"quick": {"MaxLen": "4"}, "thorough": {"MaxLen": "5"}}},
        ],
        "bounds": "every deletion/replacement/insertion of one of 21 tokens at every position and every byte-prefix of 9 well-formed documents; all strings of <=L characters over the number alphabet {-,0,1,9,.,e,E,+} (bare and in an array) and over a 15-character string alphabet (quotes, backslash, u, braces, hex, control, multi-byte); 10 escape units around the surrogate ranges alone/paired/mis-paired in both bracket forms; integer/float classification at 2^63, 2^64 and the ends of the double range; token soups of <=L tokens over 10 tokens",
    },
    "C03": {
        "drive": [{"kind": "render", "count": {"quick": 2400, "thorough": 30000}}],
        "gen": [gen("render", "render", ["render"])],
        "bounds": "strings of every code-point class (each control character 0x00-0x1F alone and embedded, DEL, quote, backslash, slash, U+2028/9, astral, replacement char) as values and keys down to three levels; every finite number of the 80-number boundary set; nested empty containers",
    },
    "C04": {
        "drive": [{"kind": "pairs:compare", "count": {"quick": 4500, "thorough": 60000}}, {"kind": "pairs_repr:compare", "count": {"quick": 1200, "thorough": 12000}}],
        "gen": [{"name": "laws", "module": "Laws", "constants": {"Family": '"docs"', "Stride": "1"}, "invariants": ["LawInv"], "tiers": ("thorough",), "timeout": 3000},
                gen("cmp11", "pairs11", ["compare"], rp="{0, 1, 3}"),
                gen("cmp", "pairs", ["compare", "value_api"]), gen("cmp2", "pairs2", ["compare"])],
        "bounds": "all ordered pairs of the 70-document pair universe (number encodings of equal value, 2^53 neighbours, prefixes, length-only and deep differences)",
    },
    "C07": {
        "drive": [{"kind": "edit", "count": {"quick": 6000, "thorough": 40000}, "ops": ["build_object", "build_array"]}],
        "gen": [
            {"name": "chain1", "module": "System", "constants": {"ChainLen": "1", "Walkers": "0"}, "invariants": ["GenInv"], "properties": ["AppendOnly"],
             "tier_constants": {"quick": {"StartSet": '"tiny"'}, "thorough": {"StartSet": '"small"'}}},
            {"name": "text2", "module": "System", "constants": {"ChainLen": "2", "Walkers": "0", "StartSet": '"text2"'}, "invariants": ["GenInv"], "properties": ["AppendOnly"]},
            {"name": "walks", "module": "System", "constants": {"StartSet": '"full"'}, "invariants": ["GenInv"], "properties": ["AppendOnly"],
             "tier_constants": {"quick": {"ChainLen": "6", "Walkers": "1500"}, "thorough": {"ChainLen": "10", "Walkers": "8000"}}},
        ],
        "bounds": "exhaustive: every enabled step (19 functions x arguments drawn from the current documents x source/destination registers) from every pair of start documents; random walks of the state machine: quick 1500 walks x 6 steps, thorough 8000 x 10, each replayed on the real crate with its own output bytes threaded from call to call and all results appended to one buffer",
    },
    "C08": {
        "drive": [{"kind": "path", "count": {"quick": 3000, "thorough": 40000}}],
        "must_see": ["select:select"],
        "gen": [
            {"name": "nav", "module": "GenPath", "constants": {"Family": '"nav"'}, "tier_constants": {"quick": {"MaxSteps": "2"}, "thorough": {"MaxSteps": "2"}}},
            {"name": "filter", "module": "GenPath", "constants": {"Family": '"filter"', "MaxSteps": "0"}},
            {"name": "pred", "module": "GenPath", "constants": {"Family": '"pred"', "MaxSteps": "0"}},
            {"name": "err", "module": "GenPath", "constants": {"Family": '"err"', "MaxSteps": "0"}},
            {"name": "pre", "module": "GenPath", "constants": {"Family": '"pre"', "MaxSteps": "0"}},
            {"name": "viatext", "module": "GenPath", "constants": {"Family": '"viatext"', "MaxSteps": "0"}},
        ],
        "bounds": "the same paths also handed over as text rendered by the specification (parser + evaluator); 21 documents (scalar roots, empty containers, arrays of objects, container-valued members, number encodings) x navigation step sequences of <= N steps over 26 steps (wildcards, three name spellings, 19 index lists incl. last+-k, ranges, negative and i32-extreme values) and 170 filter steps (6 operators x operand paths x 10 literals, literal-left, path-vs-path, root-relative, &&/|| nesting, exists, nested filters) in 4 positions, 40 stand-alone predicates, arithmetic expressions and 64-bit-overflowing index forms",
    },
    "C09": {
        "drive": [{"kind": "syntax", "count": {"quick": 6000, "thorough": 80000}, "ops": ["jp_parse"]}],
        "must_see": ["jp_parse:path", "jp_parse:err"],
        "gen": [
            {"name": "paths", "module": "GenSyntax", "constants": {"Family": '"paths"'}},
            {"name": "pathfaults", "module": "GenSyntax", "constants": {"Family": '"pathfaults"'}},
            {"name": "soup", "module": "GenSyntax", "constants": {"Family": '"soup"'}, "ops": ["jp_parse"]},
        ],
        "bounds": "~600 syntax trees (every step kind with 8 names incl. ones needing quotes, 22 index lists incl. i32 extremes, 23 literals of every scalar kind incl. negative/fractional/exponent/empty-string/escaped, all comparison operators, 14 &&/||/parenthesis/exists nestings, leading-name form, predicates) x 6 spelling styles (3 spacings x 3 keyword cases x quoted/bare names) x 2 float lexeme tables; 13 certainly-invalid edits per tree; all byte soups of <=3 bytes over 20 characters; 7 names with supplementary-plane characters (planes 1, 2, 14, 16) raw and as escaped surrogate pairs in names, key-path elements and string literals",
    },
    "C15": {
        "drive": [{"kind": "path", "count": {"quick": 3000, "thorough": 40000}}],
        "gen": [
            {"name": "nav", "module": "GenPath", "constants": {"Family": '"nav"'}, "tier_constants": {"quick": {"MaxSteps": "2"}, "thorough": {"MaxSteps": "2"}}},
            {"name": "filter", "module": "GenPath", "constants": {"Family": '"filter"', "MaxSteps": "0"}},
            {"name": "pred", "module": "GenPath", "constants": {"Family": '"pred"', "MaxSteps": "0"}},
            {"name": "pre", "module": "GenPath", "constants": {"Family": '"pre"', "MaxSteps": "0"}},
            {"name": "text", "module": "GenPath", "constants": {"Family": '"text"', "MaxSteps": "0"}},
        ],
        "bounds": "the C08 (document, path) universe: for each, all four modes through the Selector API, the three convenience functions, exists/path_exists, predicate_match/path_match, into empty and pre-filled buffers; data and offsets compared with the specification's ModeItems",
    },
    "C16": {
        "drive": [{"kind": "syntax", "count": {"quick": 6000, "thorough": 80000}, "ops": ["kp_parse"]}],
        "must_see": ["kp_parse:kp", "kp_parse:err"],
        "gen": [
            {"name": "kp", "module": "GenSyntax", "constants": {"Family": '"kp"'}},
            {"name": "kpfaults", "module": "GenSyntax", "constants": {"Family": '"kpfaults"'}},
            {"name": "soup", "module": "GenSyntax", "constants": {"Family": '"soup"'}, "ops": ["kp_parse"]},
        ],
        "bounds": "all key paths of <=2 elements over 16 elements (indices 0, +-1, i32 min/max; plain, multi-byte, quoted, empty-quoted, escaped-quote, backslash, digit-quoted names) plus longer lists x 3 spacings; 8 certainly-invalid edits per path; byte soups",
    },
    "C10": {
        "must_see": ["decode:doc", "decode:err"],
        "drive": [{"kind": "decode", "count": {"quick": 6000, "thorough": 80000}}],
        "gen": [
            {"name": "fault", "module": "GenFault", "constants": {"Family": '"fault"', "Double": "FALSE"}},
            {"name": "texts", "module": "GenFault", "constants": {"Family": '"texts"', "Double": "FALSE"}},
            {"name": "fault2", "module": "GenFault", "constants": {"Family": '"fault"', "Double": "TRUE"}, "tiers": ("thorough",)},
        ],
        "bounds": "33 documents x every truncation, every single bit flip, every byte set to each of 12 boundary values, every inserted boundary byte and every deleted byte at every offset (thorough: all double faults on 8 small documents); rewritten root counts capped below 2^24; 20 header-like JSON texts of >= 8 bytes",
        "assumptions": ["root header counts >= 2^24 are excluded: the decoder's pre-allocation would then depend on the host's overcommit policy"],
    },
    "C11": {
        "drive": [{"kind": "repr", "count": {"quick": 3600, "thorough": 40000}}, {"kind": "serde_repr", "count": {"quick": 1500, "thorough": 16000}}, {"kind": "pairs_repr", "count": {"quick": 2400, "thorough": 30000}, "ops": ["compare", "contains", "concat", "array_intersection", "array_except", "array_overlap"]}],
        "gen": [gen("acc11", "acc11", ACC_OPS + ["to_string", "to_pretty_string", "lazy", "comparable_all"], rp="{0, 1, 2, 3}"),
                gen("edit11", "edit11", EDIT_OPS + ["array_distinct"], rp="{0, 1, 3}"),
                gen("pairs11", "pairs11", ["compare", "contains", "concat", "array_intersection", "array_except", "array_overlap"], rp="{0, 2, 3}"),
                {"name": "pathtext", "module": "GenPath", "constants": {"Family": '"text"', "MaxSteps": "0"}}],
        "bounds": "26-document universe (every scalar class incl. multi-byte/control/quote strings, numeric strings, -0.0, 2^53+1; nested containers) x every argument of the accessor/editor families x text spacings {compact, spaced, CRLF+full \\u escapes}; two-document functions over all pairs of a 22-document universe x all representation vectors over {binary, two text spacings}",
        "assumptions": [RN_ASSUMPTION],
    },
    "C12": {
        "drive": [{"kind": "pairs:contains", "count": {"quick": 4500, "thorough": 60000}}, {"kind": "pairs_repr:contains", "count": {"quick": 1800, "thorough": 20000}}],
        "gen": [{"name": "laws", "module": "Laws", "constants": {"Family": '"docs"', "Stride": "1"}, "invariants": ["LawInv"], "tiers": ("thorough",), "timeout": 3000},
                gen("contains", "pairs", ["contains"]), gen("contains2", "pairs2", ["contains"]),
                gen("contains11", "pairs11", ["contains"], rp="{0, 2}")],
        "bounds": "all ordered pairs of the pair universe",
    },
    "C13": {
        "drive": [{"kind": "pairs:array_intersection", "count": {"quick": 1800, "thorough": 20000}}, {"kind": "pairs:array_except", "count": {"quick": 1800, "thorough": 20000}}, {"kind": "pairs:array_overlap", "count": {"quick": 1800, "thorough": 20000}}, {"kind": "pairs_repr:array_intersection", "count": {"quick": 900, "thorough": 10000}}],
        "gen": [gen("sets", "pairs", ["array_intersection", "array_except", "array_overlap"]),
                gen("sets2", "pairs2", ["array_intersection", "array_except", "array_overlap"], tiers=("thorough",)),
                gen("distinct", "edit", ["array_distinct"]),
                gen("sets11", "pairs11", ["array_intersection", "array_except", "array_overlap"], rp="{0, 2}"),
                gen("distinct11", "edit11", ["array_distinct"], rp="{0, 1, 3}")],
        "bounds": "all ordered pairs of the pair universe; distinct over the bounded universe",
    },
    "C19": {
        "drive": [{"kind": "serde", "count": {"quick": 2400, "thorough": 30000}}, {"kind": "serde_repr", "count": {"quick": 1500, "thorough": 16000}}],
        "gen": [gen("serde", "render", ["serde"])],
        "bounds": "the C03 universe: strings of every code-point class as values and keys, every finite number of the boundary set (u64/i64 extremes), nested empty containers",
    },
    "C17": {
        "drive": [{"kind": "edit", "count": {"quick": 2400, "thorough": 30000}}, {"kind": "pairs:concat", "count": {"quick": 900, "thorough": 10000}}, {"kind": "path", "count": {"quick": 1500, "thorough": 20000}}],
        "gen": [gen("edit11", "edit11", EDIT_OPS + ["array_distinct"], tiers=("quick",)),
                gen("edit", "edit", EDIT_OPS + ["array_distinct"], wq=1, wt=2, tiers=("thorough",)),
                gen("pairs", "pairs11", ["concat", "array_intersection", "array_except"], tiers=("quick",)),
                gen("pairs2", "pairs2", ["concat", "array_intersection", "array_except"], tiers=("thorough",)),
                gen("build", "build", ["build_array", "build_object"]),
                gen("codec", "codec", ["to_vec"], wq=1, wt=2),
                {"name": "pre", "module": "GenPath", "constants": {"Family": '"pre"', "MaxSteps": "0"}}],
        "bounds": "every buffer-writing function on the bounded universes, each call made twice: into an empty buffer and into a buffer that already holds bytes (and, for path selection, earlier offsets); documented error cases included",
    },
    "C14": {
        "drive": [{"kind": "pairs:comparable2", "count": {"quick": 4500, "thorough": 60000}}],
        "gen": [gen("keys", "pairs", ["comparable2"]), gen("keys2", "pairs2", ["comparable2"])],
        "bounds": "all ordered pairs of the 70-document pair universe and of the 92-document structured universe",
    },
    "C18": {
        "must_see": ["num_decode:num", "num_decode:err", "num_cmp:numcmp", "num:numinfo"],
        "drive": [{"kind": "num", "count": {"quick": 6000, "thorough": 80000}}],
        "gen": [{"name": "laws", "module": "Laws", "constants": {"Family": '"num"', "Stride": "1"}, "invariants": ["LawInv"]},
                gen("num", "num", ["num", "num_decode", "casts"]),
                gen("numpairs", "numpairs", ["num_cmp"]),
                gen("sweep16", "sweep16", ["num", "num_cmp"], tiers=("thorough",)),
                {"name": "widths", "tool": "apalache", "module": "NumLemma", "inv": "Lemma", "tiers": ("thorough",)}],
        "bounds": "80-number boundary set (every width boundary +-1 of both integer encodings, 2^53/2^63/2^64 neighbourhoods, IEEE class boundaries): all numbers, all ordered pairs, all triples for the order laws; decoder: 11 tags x 3 fillers x lengths 0..18,31..33,64; thorough: exhaustive sweep of every 16-bit unsigned, signed and (top-16-bit) binary64 pattern",
    },
    "C20": {
        "must_see": ["deep:ok"],
        "gen": [gen("extreme", "extreme", ["delete_by_index", "array_insert", "get_by_keypath", "delete_by_keypath", "get_by_index"], rp="{0, 1}"),
                {"name": "extremepath", "module": "GenPath", "constants": {"Family": '"err"', "MaxSteps": "0"}},
                {"name": "extremetext", "module": "GenSyntax", "constants": {"Family": '"extreme"'}},
                {"name": "limits", "module": "Limits", "constants": {"W": "6"}, "invariants": ["OutcomeOk"]},
                {"name": "indexproofs", "tool": "tlapm", "module": "IndexProofs", "tiers": ("thorough",)},
                {"name": "deep", "module": "GenDeep", "constants": {},
                 "tier_constants": {"quick": {"Depths": "{1000, 10000, 100000}"}, "thorough": {"Depths": "{100, 1000, 3000, 10000, 30000, 100000, 300000}"}}}],
        "bounds": "index and position arguments at {i32::MIN, MIN+1, -len-1, -len, -1, 0, len-1, len, len+1, MAX-1, MAX} for delete_by_index, array_insert, both key-path functions (at depth 1 and 2, JSONB and text) and JSONPath index forms; 10 integer spellings at and beyond the ends of the i32 range in every numeric position of path and key-path text (index, last +/- n incl. doubled signs, ranges, filter literal); 25 routines x {array, object, alternating} nesting x depths on a geometric ladder up to 300000 (quick: 1000/10000/100000), each in a child process with an 8 MiB stack; index-arithmetic laws model-checked on a 6-bit scaled copy and (thorough) proved for every machine width with TLAPS (IndexProofs.tla: 12 obligations, incl. that the saturating position arithmetic of Path.tla agrees with exact integer positions)",
        "assumptions": ["stack exhaustion is observed with the default 8 MiB thread stack of this harness build (opt-level 1); frame sizes of other builds differ, which is why recorded findings name a ladder rung one step shallower than the first observed crash"],
    },
}
