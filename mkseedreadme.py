#!/usr/bin/env python3
"""Regenerates seeded/README.md from the meta.json files."""
import json, os
ROOT = os.path.join(os.path.dirname(os.path.abspath(__file__)), "seeded")
head = open(os.path.join(ROOT, "README.md")).read().split("| name |")[0]
rows = ["| name | property | change | needs | quick check |", "|---|---|---|---|---|"]
def cell(x):
    return str(x).replace("|", "/").replace("\n", " ")[:150]
for n in sorted(d for d in os.listdir(ROOT) if os.path.isdir(os.path.join(ROOT, d))):
    m = json.load(open(os.path.join(ROOT, n, "meta.json")))
    det = ", ".join(f"{p}: {v}" for p, v in sorted(m.get("detection", {}).items()))
    rows.append(f"| {n} | {m.get('breaks_property', n.split('-')[0])} | {cell(m.get('summary', ''))} | {cell(m.get('needs', ''))} | {det} |")
open(os.path.join(ROOT, "README.md"), "w").write(head + "\n".join(rows) + "\n")
print(len(rows) - 2, "changes")
