#!/bin/bash
# run every property's check (default quick) and print one line each
tier=${1:-quick}
for p in C01 C02 C03 C04 C05 C06 C07 C08 C09 C10 C11 C12 C13 C14 C15 C16 C17 C18 C19 C20; do
  s=$(date +%s)
  out=$(./check $p $tier 2>&1); rc=$?
  e=$(( $(date +%s) - s ))
  echo "$p exit=$rc ${e}s $(echo "$out" | grep -c '^VIOLATION') violations $(echo "$out" | grep -c '^KNOWN-FINDING') known | $(echo "$out" | tail -1 | cut -c1-120)"
done
