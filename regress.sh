#!/bin/bash
# Regression of the whole seeded corpus against the current checks, in K parallel scratch copies
# (so /repo and /verif stay free): for every kept change, its own property's quick check.
# Results: /verif/seeded/regress.tsv (change, property, result, seconds).  Usage: ./regress.sh [K]
set -u
K=${1:-4}
out=/verif/seeded/regress.tsv
echo -e "change\tproperty\tresult\tseconds" > $out
names=( $(ls /verif/seeded | grep '^C') )
worker() {
  k=$1; R=/tmp/rg$k
  rm -rf $R; mkdir -p $R
  git clone -q /repo $R/repo
  rsync -a --exclude work --exclude harness/target --exclude .git --exclude replays /verif/ $R/verif/
  sed -i "s#path = \"/repo\"#path = \"$R/repo\"#" $R/verif/harness/Cargo.toml
  cd $R/verif
  i=0
  for n in "${names[@]}"; do
    i=$((i+1)); [ $((i % K)) -eq $k ] || continue
    own=${n%%-*}
    git -C $R/repo checkout -q -- . ; git -C $R/repo apply /verif/seeded/$n/patch.diff || { echo -e "$n\t$own\tpatch-does-not-apply\t0" >> $out; continue; }
    s=$(date +%s); o=$(./check $own quick 2>&1); rc=$?; e=$(( $(date +%s) - s ))
    case $rc in 1) r=DETECTED;; 0) r=missed;; *) r=tool-error;; esac
    echo -e "$n\t$own\t$r\t$e" >> $out
    git -C $R/repo checkout -q -- .
  done
  rm -rf $R
}
for k in $(seq 0 $((K-1))); do worker $k & done
wait
