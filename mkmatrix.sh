#!/bin/bash
# Detection matrix in scratch copies (so /repo and /verif stay free): for every kept seeded change,
# run the quick checks of its own property and of the neighbouring properties; results go to
# /verif/seeded/matrix.tsv.  Usage: ./mkmatrix.sh [names...]
set -u
MX=/tmp/mx
rm -rf $MX; mkdir -p $MX
git clone -q /repo $MX/repo
rsync -a --exclude work --exclude harness/target --exclude .git --exclude replays /verif/ $MX/verif/
sed -i "s#path = \"/repo\"#path = \"$MX/repo\"#" $MX/verif/harness/Cargo.toml
declare -A NB=( [C01]="C07 C10 C18" [C02]="C11 C10" [C03]="C19 C11" [C04]="C14 C18 C12" [C05]="C11 C07" [C06]="C07 C17 C11" [C07]="C06 C08 C15"
  [C08]="C15 C07" [C09]="C16 C08" [C10]="C01 C18" [C11]="C05 C06 C12" [C12]="C11 C04" [C13]="C11 C17" [C14]="C04" [C15]="C08 C17" [C16]="C09"
  [C17]="C06 C15 C07" [C18]="C04 C01 C14" [C19]="C03 C11" [C20]="C08 C05" )
names=${@:-$(ls /verif/seeded | grep '^C')}
out=/verif/seeded/matrix.tsv
[ -f $out ] || echo -e "change\tproperty\tresult\tseconds" > $out
cd $MX/verif
for n in $names; do
  own=${n%%-*}
  git -C $MX/repo checkout -q -- . ; git -C $MX/repo apply /verif/seeded/$n/patch.diff || { echo -e "$n\t-\tpatch-does-not-apply\t0" >> $out; continue; }
  for p in $own ${NB[$own]}; do
    grep -q "^$n	$p	" $out && continue
    s=$(date +%s); o=$(nice -n 10 ./check $p quick 2>&1); rc=$?; e=$(( $(date +%s) - s ))
    case $rc in 1) r=DETECTED;; 0) r=missed;; *) r=tool-error;; esac
    echo -e "$n\t$p\t$r\t$e" >> $out
  done
  git -C $MX/repo checkout -q -- .
done
