#!/usr/bin/env python3
"""Regenerate MANIFEST.json from plans.py (the claimed checks) and the texts below."""
import json, os, sys
ROOT = os.path.dirname(os.path.abspath(__file__))
sys.path.insert(0, ROOT)
from plans import PLANS

TEXT = {
 "C01": ("3.C01", "TLC enumerates every document of a bounded universe (all payload-width combinations of up to W siblings, two nesting levels, 28 boundary atoms) and the seeded driver adds deep/wide documents with full 64-bit numbers and all-plane strings; for each the real encoder's bytes must equal spec/Jsonb.tla Encode (the README layout transcribed) byte for byte and both decoders must return Canon(d) and re-encode identically. The spec's own laws (Decode(Encode(d)) = Canon(d), strict canonicity, shortest number form) are TLC invariants on the same universe."),
 "C02": ("3.C02", "TLC enumerates byte strings from the lexer and parser automata of spec/JsonText.tla (every <=L-character string over the number and string alphabets, every single-token deletion/replacement/insertion and byte-prefix of 9 well-formed documents, surrogate escapes alone/paired/mis-paired in both bracket forms, integer/float classification at 2^63/2^64 and the ends of the double range, token soups); the real parser must accept exactly what the relaxed grammar accepts, with the same value (integers exact; floats judged by exact big-number arithmetic in spec/BigNat.tla), and never panic. Law checked by TLC on every text: RFC-strict acceptance implies relaxed acceptance with the same value, white-space insensitivity."),
 "C03": ("3.C03", "For strings of every code-point class (each control character, DEL, quote, backslash, U+2028/9, astral) as values and keys three levels down, every finite boundary number and nested empty containers, the real compact and pretty renderings must be accepted by the specification's own RFC 8259-strict parser and denote the original (integers exact, float lexemes correctly rounded to the original bits by BigNat!IsRN), the pretty form must be exactly the two-space layout of the compact token sequence, and re-parsing re-encodes to Encode(ToUnsigned(d))."),
 "C04": ("3.C04", "All ordered pairs of a 70-document universe built to contain equal values in different number encodings, 2^53 neighbours, prefixes, length-only and deep differences are compared by the real code in all text/binary combinations and must equal the specification's Cmp; antisymmetry, reflexivity, Cmp=0 <=> value equality and (thorough) transitivity over triples are TLC invariants of the specification, transferred to the code by the conformance of every pair."),
 "C05": ("3.C05", "Every document of the bounded universe x every argument the property quantifies over (indices -1..len+1, present keys, case variants, prefixes, extensions, key paths to depth+1 including kind mismatches) is executed against the real accessors; results must equal the tree definition, every returned sub-value byte-identical to Encode(subtree)."),
 "C06": ("3.C06", "Every document of the bounded universe x all positions/key sets/key paths/new values is executed against the real editors and builders; appended bytes must equal Encode of the tree edit, documented errors must match and leave the buffer untouched."),
 "C07": ("3.C07, 1.1", "spec/System.tla is the state machine of a caller's session (registers holding abstract documents, one append-only output buffer, one action per editing/extraction/building/selection function with arguments drawn from the current documents). TLC checks on every reachable state that registers stay documents whose encoding is canonical (strict Decode, identical re-encoding, sorted unique keys), that byte equality coincides with value identity, and that the buffer only grows; it writes out every enabled single step from every start pair (exhaustive) and thousands of random walks. The harness replays each chain on the real crate, threading the crate's own output bytes from call to call into one shared buffer; spec/Trace.tla re-runs the same ApplyStep operator and requires the real bytes to equal Encode(register) at every step."),
 "C08": ("3.C08", "TLC enumerates ~33k (document, abstract path) cases: navigation sequences over wildcards, three name spellings, 22 index lists (last+-k, ranges, negative, i32 extremes), 170 filters (all operators x operand paths x literals of every kind, literal-left, path-vs-path, root-relative, &&/||/parentheses, exists, nested filters), stand-alone predicates, arithmetic expressions; all-mode data and offsets of the real selector must equal the encodings of spec/Path.tla Eval, evaluation errors must be errors with untouched buffers, never a panic."),
 "C09": ("3.C09", "TLC renders ~600 syntax trees in 8 spelling styles (white space at every inter-token point, keyword case, bare/quoted names, minimal/maximal string escapes, two float lexeme tables) with spec/PathText.tla; the real parser must return the tree the text was rendered from, its printout must parse back to the same tree when nothing needs quoting, 13 certainly-invalid edits per tree must be errors, byte soups must not panic."),
 "C10": ("3.C10", "Fault enumeration by TLC: every truncation, bit flip, boundary-byte substitution, inserted and deleted byte at every offset of 33 encodings (thorough: all double faults on 8 documents), plus header-like JSON texts; both decoders must return a value or an error (a panic is a recorded outcome no spec step allows), returned strings and keys must be well-formed UTF-8 (spec/Utf8.tla), proper prefixes must be errors, valid text must decode to the value the spec's strict parser gives."),
 "C11": ("3.C11", "Every accessor, editor and two-document function is executed on the same abstract documents under all representation vectors over {JSONB, three JSON text spacings/escape styles}; the specification's result does not read the representation, so each variant must equal the same expected value (byte-identical JSONB, same boolean/ordering/option/error). Text arguments are rendered by the harness and re-checked against spec/JsonText.tla RenderText, float lexemes by BigNat!IsRN."),
 "C12": ("3.C12", "All ordered pairs of the pair universe executed against contains; must equal the specification's PostgreSQL-style containment with compare-equality on scalars; reflexivity and agreement with Cmp are TLC invariants."),
 "C13": ("3.C13", "All ordered pairs of the pair universe executed against distinct/intersection/except/overlap; must equal the multiset definitions over identical entries; partition, idempotence and overlap laws are TLC invariants of the specification."),
 "C14": ("3.C14", "All ordered pairs of the pair universes: the bytewise order of the two real keys must equal the specification's Cmp of the documents (a relation; no key layout is imposed). Two design-level defects are recorded as known findings by a class predicate computed in TLA+ on the deciding pair; anything else is a violation."),
 "C15": ("3.C15", "Each (document, path) of the C08 universe is run through all four modes of the Selector API, the three convenience functions, exists/path_exists and predicate_match/path_match, into empty and pre-filled buffers; data and offsets of every mode must equal the specification's ModeItems of the all-mode items, predicates must write the one boolean. Mode consistency laws are TLC invariants of spec/Path.tla."),
 "C16": ("3.C16", "All key paths of <=2 elements over 18 elements (i32 extremes, plain/quoted/empty/escaped/multi-byte names) x 4 spelling styles rendered by spec/PathText.tla must parse to the elements they were rendered from and print back faithfully; 8 certainly-invalid edits per path must be errors; byte soups must not panic."),
 "C17": ("3.C17", "Every buffer-writing function (editors, set functions, builders, encoder, comparable key, path selection) is called twice by the harness: into an empty buffer and into a buffer holding earlier bytes (and offsets, including a batch where an earlier predicate result has no offset); the validator requires after = before ++ what went into the empty buffer, offsets shifted by the prior length, and nothing appended on a documented error."),
 "C20": ("3.C20", "Index and position arguments at the ends of the i32 range and around -len/len for delete_by_index, array_insert, both key-path functions and JSONPath index forms are executed on the real crate (built with overflow checks) and must give the result of exact integer arithmetic; spec/Limits.tla model-checks on a 6-bit scaled copy which formulations stay in range. 25 routines x 3 nesting shapes x depths up to 300000 run in child processes: the only outcomes the recursion model allows are a result or an error, so a recorded death is rejected; the unbounded-recursion routines are recorded as known findings by routine and ladder rung."),
 "C19": ("3.C19", "For the C03 universe (all string classes, every finite boundary number incl. u64/i64 extremes) the serde_json value built from the bytes and from the tree (logged structurally: u64/i64/f64 bits) must equal the specification's model ToUnsigned(Canon(d)), must match what the spec's strict parser reads from the real text rendering, the object-only variant must agree, and converting back must give a document equal to the original."),
 "C18": ("3.C18", "An 80-number boundary set (every width boundary +-1 of both integer encodings, 2^53/2^63/2^64 neighbourhoods, IEEE class boundaries): every number's encoding, decoding, three views and rendering, every ordered pair's Ord/Eq/PartialOrd, and every tag x length 0..10 for the decoder are executed on the real Number and must equal the exact bit-sequence arithmetic of spec/Num.tla."),
}
NOTE = "Trusted: TLC 1.8.0 and the TLA+ specification in /verif/spec (written from README, doc comments and the property text); the harness only builds inputs and records results, and its inputs are re-checked by the specification (a mismatch is a tool error). Bounded universes: see evidence.coverage.bounds."

checks = []
for pid in sorted(PLANS):
    if pid not in TEXT:
        continue
    ref, text = TEXT[pid]
    checks.append({
        "property_id": pid,
        "quick_cmd": f"./check {pid} quick",
        "thorough_cmd": f"./check {pid} thorough",
        "evidence_file": f"/verif/evidence/{pid}.json",
        "replay_cmd_template": f"./check {pid} --replay {{path}}",
        "engine": "tlc-trace",
        "level_claimed": {"category": "model_checking", "text": text, "design_ref": ref},
        "level_note": NOTE,
        "technique": "explicit TLA+ specification; TLC generates bounded-exhaustive scripts and checks the spec's laws; events recorded from the real crate are validated against the spec by TLC (trace validation)",
    })
claimed = {c["property_id"] for c in checks}
props = [json.loads(l) for l in open(os.path.join(ROOT, "properties.jsonl"))]
na = [{"property_id": p["id"], "reason": "check not built yet in this round (specification module in progress); see DESIGN.md section 8"}
      for p in props if p["id"] not in claimed]
m = {
 "version": 1,
 "setup_cmd": "cd /verif/harness && CARGO_NET_OFFLINE=true cargo build --release --offline",
 "hooks": {"guard": "jsonb_verif", "enable": "harness/.cargo/config.toml passes --cfg jsonb_verif; no hook is needed: every property is observable through the public API", "baseline_off_cmd": "cd /repo && cargo test --workspace --no-fail-fast --offline", "source_commits": [], "add_only": True},
 "engines": [
  {"name": "tlc-trace", "path": "/verif/check", "serves_properties": sorted(claimed), "kind_free_text": "python orchestrator: TLC generator (spec/Gen.tla ...) -> Rust harness exec -> TLC trace validation (spec/Trace.tla)"}],
 "checks": checks,
 "not_applicable": na,
 "notes": "All checks share one pipeline; see DESIGN.md. Exit 2 means tool error (never a verdict).",
}
json.dump(m, open(os.path.join(ROOT, "MANIFEST.json"), "w"), indent=1)
print("claimed", sorted(claimed), "na", [x["property_id"] for x in na])
