#!/usr/bin/env python3
"""Regenerate MANIFEST.json from plans.py (the claimed checks) and the texts below."""
import json, os, sys
ROOT = os.path.dirname(os.path.abspath(__file__))
sys.path.insert(0, ROOT)
from plans import PLANS

TEXT = {
 "C01": ("3.C01", "TLC enumerates every document of a bounded universe (all payload-width combinations of up to W siblings, two nesting levels, 28 boundary atoms) and the seeded driver adds deep/wide documents with full 64-bit numbers and all-plane strings; for each the real encoder's bytes must equal spec/Jsonb.tla Encode (the README layout transcribed) byte for byte and both decoders must return Canon(d) and re-encode identically. The spec's own laws (Decode(Encode(d)) = Canon(d), strict canonicity, shortest number form) are TLC invariants on the same universe."),
 "C04": ("3.C04", "All ordered pairs of a 70-document universe built to contain equal values in different number encodings, 2^53 neighbours, prefixes, length-only and deep differences are compared by the real code in all text/binary combinations and must equal the specification's Cmp; antisymmetry, reflexivity, Cmp=0 <=> value equality and (thorough) transitivity over triples are TLC invariants of the specification, transferred to the code by the conformance of every pair."),
 "C05": ("3.C05", "Every document of the bounded universe x every argument the property quantifies over (indices -1..len+1, present keys, case variants, prefixes, extensions, key paths to depth+1 including kind mismatches) is executed against the real accessors; results must equal the tree definition, every returned sub-value byte-identical to Encode(subtree)."),
 "C06": ("3.C06", "Every document of the bounded universe x all positions/key sets/key paths/new values is executed against the real editors and builders; appended bytes must equal Encode of the tree edit, documented errors must match and leave the buffer untouched."),
 "C12": ("3.C12", "All ordered pairs of the pair universe executed against contains; must equal the specification's PostgreSQL-style containment with compare-equality on scalars; reflexivity and agreement with Cmp are TLC invariants."),
 "C13": ("3.C13", "All ordered pairs of the pair universe executed against distinct/intersection/except/overlap; must equal the multiset definitions over identical entries; partition, idempotence and overlap laws are TLC invariants of the specification."),
 "C18": ("3.C18", "An 80-number boundary set (every width boundary +-1 of both integer encodings, 2^53/2^63/2^64 neighbourhoods, IEEE class boundaries): every number's encoding, decoding, three views and rendering, every ordered pair's Ord/Eq/PartialOrd, and every tag x length 0..10 for the decoder are executed on the real Number and must equal the exact bit-sequence arithmetic of spec/Num.tla."),
}
NOTE = "Trusted: TLC 1.8.0 and the TLA+ specification in /verif/spec (written from README, doc comments and the property text); the harness only builds inputs and records results, and its inputs are re-checked by the specification (a mismatch is a tool error). Bounded universes: see evidence.coverage.bounds."

checks = []
for pid in sorted(PLANS):
    if pid not in TEXT:
        continue
    ref, text = TEXT[pid]
    checks.append({
        "property_id": pid,
        "quick_cmd": f"./check {pid} quick",
        "thorough_cmd": f"./check {pid} thorough",
        "evidence_file": f"/verif/evidence/{pid}.json",
        "replay_cmd_template": f"./check {pid} --replay {{path}}",
        "engine": "tlc-trace",
        "level_claimed": {"category": "model_checking", "text": text, "design_ref": ref},
        "level_note": NOTE,
        "technique": "explicit TLA+ specification; TLC generates bounded-exhaustive scripts and checks the spec's laws; events recorded from the real crate are validated against the spec by TLC (trace validation)",
    })
claimed = {c["property_id"] for c in checks}
props = [json.loads(l) for l in open(os.path.join(ROOT, "properties.jsonl"))]
na = [{"property_id": p["id"], "reason": "check not built yet in this round (specification module in progress); see DESIGN.md section 8"}
      for p in props if p["id"] not in claimed]
m = {
 "version": 1,
 "setup_cmd": "cd /verif/harness && CARGO_NET_OFFLINE=true cargo build --release --offline",
 "hooks": {"guard": "jsonb_verif", "enable": "harness/.cargo/config.toml passes --cfg jsonb_verif; no hook is needed: every property is observable through the public API", "baseline_off_cmd": "cd /repo && cargo test --workspace --no-fail-fast --offline", "source_commits": [], "add_only": True},
 "engines": [
  {"name": "tlc-trace", "path": "/verif/check", "serves_properties": sorted(claimed), "kind_free_text": "python orchestrator: TLC generator (spec/Gen.tla ...) -> Rust harness exec -> TLC trace validation (spec/Trace.tla)"}],
 "checks": checks,
 "not_applicable": na,
 "notes": "All checks share one pipeline; see DESIGN.md. Exit 2 means tool error (never a verdict).",
}
json.dump(m, open(os.path.join(ROOT, "MANIFEST.json"), "w"), indent=1)
print("claimed", sorted(claimed), "na", [x["property_id"] for x in na])
