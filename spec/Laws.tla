-------------------------------- MODULE Laws -------------------------------
(***************************************************************************)
(* Algebraic laws of the specification over all pairs and triples of a     *)
(* bounded universe, checked by TLC alone (no implementation involved).    *)
(* Conformance of every pair with the code (C04, C12, C18 checks) then     *)
(* transfers them: an implementation that agrees with Cmp on every pair of *)
(* this universe is transitive on it because Cmp is.                       *)
(***************************************************************************)
EXTENDS Universe, TLC

CONSTANTS Family, Stride    \* Stride > 1 samples the third element

VARIABLES stage, x, y, z
vars == <<stage, x, y, z>>
Nil == [k |-> "nil"]

NumDocs == {NumD(n) : n \in NumSet}
Set1 == IF Family = "num" THEN NumDocs ELSE PairDocs \cup (IF Family = "docs2" THEN PairDocs2 ELSE {})

Init == stage = 0 /\ x = Nil /\ y = Nil /\ z = Nil
Next ==
  \/ stage = 0 /\ x' \in Set1 /\ stage' = 1 /\ UNCHANGED <<y, z>>
  \/ stage = 1 /\ y' \in Set1 /\ stage' = 2 /\ UNCHANGED <<x, z>>
  \/ stage = 2 /\ z' \in Set1 /\ stage' = 3 /\ UNCHANGED <<x, y>>
Spec == Init /\ [][Next]_vars

Sgn(c) == IF c < 0 THEN -1 ELSE IF c > 0 THEN 1 ELSE 0
PairLaws ==
  stage = 2 =>
    /\ Cmp(x, x) = 0
    /\ Cmp(x, y) = 0 - Cmp(y, x)
    /\ (Cmp(x, y) = 0 <=> DocEq(x, y))
    /\ DocContains(x, x)
    /\ (Cmp(x, y) = 0 => DocContains(x, y) /\ DocContains(y, x))
    /\ (DocContains(x, y) /\ DocContains(y, x) => x.k = y.k)
    /\ (IsScalar(x) /\ IsScalar(y) => (DocContains(x, y) <=> Cmp(x, y) = 0))
    /\ (x.k = "num" /\ y.k = "num" =>
          /\ NumCmp(NumOf(x), NumOf(y)) = Cmp(x, y)
          \* equal numbers have equal nearest doubles; the nearest double never reverses the order
          /\ (IsFiniteNum(NumOf(x)) /\ IsFiniteNum(NumOf(y)) /\ Cmp(x, y) <= 0
                => NumCmp(N("f", AsF64(NumOf(x))), N("f", AsF64(NumOf(y)))) <= 0))
TripleLaws ==
  stage = 3 =>
    \* transitivity of the order (and of equality)
    /\ (Cmp(x, y) <= 0 /\ Cmp(y, z) <= 0 => Cmp(x, z) <= 0)
    /\ (Cmp(x, y) = 0 /\ Cmp(y, z) = 0 => Cmp(x, z) = 0)
    /\ (Cmp(x, y) < 0 /\ Cmp(y, z) <= 0 => Cmp(x, z) < 0)
    \* transitivity of containment
    /\ (DocContains(x, y) /\ DocContains(y, z) => DocContains(x, z))
LawInv == PairLaws /\ TripleLaws
=============================================================================
