------------------------------- MODULE Bytes -------------------------------
(***************************************************************************)
(* Byte and bit sequences.  TLC integers are 32-bit signed, so no 32-bit   *)
(* header word and no 64-bit quantity is ever an Int here: words are 4     *)
(* bytes, 64-bit quantities are 8 bytes or 64 bits (MSB first).            *)
(***************************************************************************)
EXTENDS Naturals, Integers, Sequences, FiniteSets

Byte == 0..255

Min2(a, b) == IF a <= b THEN a ELSE b
Max2(a, b) == IF a >= b THEN a ELSE b

\* s[a..b] as a sequence (empty when b < a)
Sub(s, a, b) == IF b < a THEN <<>> ELSE [i \in 1..(b - a + 1) |-> s[a + i - 1]]
Drop(s, n) == Sub(s, n + 1, Len(s))
Take(s, n) == Sub(s, 1, Min2(n, Len(s)))
Rep(x, n) == [i \in 1..n |-> x]

\* concatenation of a sequence of sequences
RECURSIVE Flat(_)
Flat(ss) == IF ss = <<>> THEN <<>> ELSE Head(ss) \o Flat(Tail(ss))

\* a normal form for printing: functions over 1..n become tuples
Tup(s) == IF Len(s) = 0 THEN <<>> ELSE [i \in 1..Len(s) |-> s[i]]

\* sum of a sequence of naturals
RECURSIVE SumSeq(_)
SumSeq(s) == IF s = <<>> THEN 0 ELSE Head(s) + SumSeq(Tail(s))

\* big-endian 32-bit word of a natural below 2^31
BE4(n) == << n \div 16777216, (n \div 65536) % 256, (n \div 256) % 256, n % 256 >>
\* a word whose top bits are a tag byte and whose low 24 bits are n (n < 2^24)
Word(tagByte, n) == << tagByte + (n \div 16777216), (n \div 65536) % 256, (n \div 256) % 256, n % 256 >>

\* lexicographic comparison of byte/bit sequences, shorter prefix first: -1, 0, 1
LexCmp(a, b) ==
  LET n == Min2(Len(a), Len(b))
      D == {i \in 1..n : a[i] # b[i]}
  IN IF D = {} THEN (IF Len(a) < Len(b) THEN -1 ELSE IF Len(a) > Len(b) THEN 1 ELSE 0)
     ELSE LET i == CHOOSE i \in D : \A j \in D : i <= j
          IN IF a[i] < b[i] THEN -1 ELSE 1

IsPrefixOf(p, s) == Len(p) <= Len(s) /\ \A i \in 1..Len(p) : p[i] = s[i]

\* bits, MSB first
BytesToBits(bs) ==
  [i \in 1..(8 * Len(bs)) |-> (bs[((i - 1) \div 8) + 1] \div (2 ^ (7 - ((i - 1) % 8)))) % 2]
BitsToBytes(bits) ==
  [j \in 1..(Len(bits) \div 8) |->
     (128 * bits[(8 * (j - 1)) + 1]) + (64 * bits[(8 * (j - 1)) + 2]) + (32 * bits[(8 * (j - 1)) + 3])
     + (16 * bits[(8 * (j - 1)) + 4]) + (8 * bits[(8 * (j - 1)) + 5]) + (4 * bits[(8 * (j - 1)) + 6])
     + (2 * bits[(8 * (j - 1)) + 7]) + bits[(8 * (j - 1)) + 8]]

\* value of a short bit sequence (at most 30 bits) as an Int
RECURSIVE BitsVal(_)
BitsVal(bits) == IF bits = <<>> THEN 0 ELSE (2 * BitsVal(Sub(bits, 1, Len(bits) - 1))) + bits[Len(bits)]

\* position of the first 1 bit, or 0
FirstOne(bits) ==
  LET S == {i \in 1..Len(bits) : bits[i] = 1}
  IN IF S = {} THEN 0 ELSE CHOOSE i \in S : \A j \in S : i <= j

AllZero(s) == \A i \in 1..Len(s) : s[i] = 0

\* increment of a bit sequence of fixed width; result has the same width (wraps on overflow)
IncBits(bits) ==
  LET Z == {i \in 1..Len(bits) : bits[i] = 0}
  IN IF Z = {} THEN Rep(0, Len(bits))
     ELSE LET p == CHOOSE i \in Z : \A j \in Z : i >= j
          IN [i \in 1..Len(bits) |-> IF i < p THEN bits[i] ELSE IF i = p THEN 1 ELSE 0]

NotBits(bits) == [i \in 1..Len(bits) |-> 1 - bits[i]]
\* two's complement negation at fixed width
NegBits(bits) == IncBits(NotBits(bits))
=============================================================================
