----------------------------- MODULE GenSyntax -----------------------------
(***************************************************************************)
(* Spec -> implementation for the two surface grammars (C09 JSONPath, C16  *)
(* key paths).  TLC enumerates syntax trees x spelling styles and renders  *)
(* them with spec/PathText.tla; the parser under test must return the tree *)
(* the text was rendered from.  A fault stage applies one edit that is     *)
(* invalid under any reading (unbalanced bracket or parenthesis,           *)
(* unterminated quote, empty index list, dangling operator, trailing       *)
(* garbage); those must be errors.  Short byte soups must not panic.       *)
(***************************************************************************)
EXTENDS PathAst, PathText, Json, TLC

CONSTANTS Family

VARIABLES stage, scr
vars == <<stage, scr>>

Styles == {[ws |-> 0, kw |-> 0, quote |-> FALSE], [ws |-> 1, kw |-> 1, quote |-> TRUE], [ws |-> 2, kw |-> 2, quote |-> FALSE],
           [ws |-> 0, kw |-> 2, quote |-> TRUE], [ws |-> 1, kw |-> 0, quote |-> FALSE], [ws |-> 2, kw |-> 1, quote |-> TRUE],
           [ws |-> 0, kw |-> 0, quote |-> TRUE, esc |-> 1], [ws |-> 1, kw |-> 1, quote |-> FALSE, esc |-> 1],
           [ws |-> 0, kw |-> 0, quote |-> FALSE, nesc |-> 1], [ws |-> 1, kw |-> 0, quote |-> FALSE, nesc |-> 2],
           [ws |-> 0, kw |-> 0, quote |-> FALSE, nesc |-> 3], [ws |-> 0, kw |-> 0, quote |-> FALSE, nesc |-> 4]}
Plain == [ws |-> 0, kw |-> 0, quote |-> FALSE]

\* number literals with their lexemes: unsigned, negative, fractional, exponent
f1000 == NF(B8(64, 143, 64, 0, 0, 0, 0, 0))
fm25 == NF(B8(192, 4, 0, 0, 0, 0, 0, 0))
f5em1 == NF(B8(63, 224, 0, 0, 0, 0, 0, 0))
LitFL == FL \o << <<f1000.b, <<49, 101, 51>> >>, <<fm25.b, <<45, 50, 46, 53>> >>, <<f5em1.b, <<48, 46, 53>> >> >>
LitFL2 == << <<f1000.b, <<49, 48, 48, 48, 46, 48>> >>, <<f15.b, <<49, 46, 53, 48>> >>, <<fm25.b, <<45, 50, 53, 69, 45, 49>> >>, <<f5em1.b, <<53, 101, 45, 49>> >> >>
\* a non-negative number has one spelling and reads back unsigned, so signed non-negative literals are not syntax
SynLits == (Lits \ {PNum(i1)}) \cup {PNum(f1000), PNum(fm25), PNum(f5em1), PNum(im1), PNum(u2p53p1), PNum(umax), PNum(imin), PNum(u0),
                      PStr(<<97, 34, 98>>), PStr(<<195, 169>>), PStr(<<92>>), PStr(<<97, 32, 98>>), PStr(<<10>>), PStr(<<47, 8, 12, 13, 240, 159, 152, 128>>)}
SynNames == {ka, kab, <<97, 95, 49>>, kE, <<97, 32, 98>>, <<34>>, kEmpty, <<36>>, <<97, 47, 98>>, <<240, 159, 152, 128, 9>>,
             <<127>>, <<101, 204, 129>>, <<226, 128, 139>>}

SynCmps == {EBin(op, EPaths(<<Cur, Dot(ka)>>), EVal(v)) : op \in CmpOps, v \in {PNum(u1)}}
           \cup {EBin("eq", EPaths(<<Cur>>), EVal(v)) : v \in SynLits}
           \cup {EBin("lt", EVal(v), EPaths(<<Cur, Dot(kb), BrW>>)) : v \in {PNum(fm25), PNum(im1), PNum(imin), PStr(sab.s), PNull}}
           \cup {EBin("ge", EPaths(<<Cur, Dot(ka)>>), EPaths(<<Root, Dot(kb), Idx(<<AiI(IxL(-1))>>)>>))}
a1 == EBin("eq", EPaths(<<Cur, Dot(ka)>>), EVal(PNum(u1)))
a2 == EBin("gt", EPaths(<<Cur, Dot(kb)>>), EVal(PNum(u2)))
a3 == EBin("ne", EPaths(<<Cur>>), EVal(PNull))
SynLogic == {EBin("and", a1, a2), EBin("or", a1, a2), EBin("or", a1, EBin("and", a2, a3)), EBin("or", EBin("and", a1, a2), a3),
             EBin("and", EBin("or", a1, a2), a3), EBin("and", a1, EBin("or", a2, a3)), EBin("and", EBin("and", a1, a2), a3),
             EBin("and", a1, EBin("and", a2, a3)), EBin("or", EBin("or", a1, a2), a3), EBin("or", a1, EBin("or", a2, a3)),
             EExists(<<Cur, Dot(ka)>>), EExists(<<Cur, Dot(ka), FilterSt(a3)>>), EBin("and", EExists(<<Root, Dot(ka)>>), a1),
             EExists(<<Cur, Dot(ka), FilterSt(EExists(<<Cur, Dot(kb), FilterSt(a3)>>))>>)}
LastIxOk(ix) == ix.t = "n" \/ ix.v > IntMin
LastOk(ai) == IF ai.x = "i" THEN LastIxOk(ai.i) ELSE LastIxOk(ai.s) /\ LastIxOk(ai.e)
SynSteps == {DotW, BrW} \cup {Dot(n) : n \in SynNames \ {kEmpty}} \cup {Colon(ka), Colon(<<97, 32, 98>>), ObjF(ka), ObjF(<<34>>), ObjF(kE), ObjF(kEmpty)}
            \* `last - n` is written with n >= 0 that fits i32, so last + v has v >= -2147483647
            \cup {Idx(l) : l \in {x \in Indices \cup ExtremeIndices : \A j \in 1..Len(x) : LastOk(x[j])}}
            \cup {FilterSt(e) : e \in SynCmps \cup SynLogic}
SynPaths ==
  {<<Root>>} \cup {<<Root, s>> : s \in SynSteps} \cup {<<Root, s, t>> : s \in {Dot(ka), BrW, Idx(<<AiI(IxN(0))>>), FilterSt(a1)}, t \in SynSteps}
  \cup {<<Dot(ka)>>, <<Dot(ka), Dot(kb), Colon(kab)>>, <<Dot(ka), ObjF(kb), Idx(<<AiI(IxN(1))>>)>>, <<Idx(<<AiI(IxN(1))>>), Idx(<<AiI(IxN(2))>>)>>,
        <<ObjF(ka), ObjF(kb)>>}
  \cup {<<Pred(e)>> : e \in {EBin(op, EPaths(<<Root, Dot(ka)>>), EVal(PNum(u1))) : op \in CmpOps}
                        \cup {EBin("gt", EPaths(<<Root>>), EVal(PNum(u1))), EBin("eq", EPaths(<<Root, DotW>>), EVal(PNum(u0))),
                              EBin("gt", EPaths(<<Root, Dot(ka)>>), EPaths(<<Root, Dot(kb)>>)),
                              EBin("or", EBin("gt", EPaths(<<Root, Dot(ka)>>), EVal(PNum(u1))), EBin("eq", EPaths(<<Root, Dot(kb)>>), EVal(PStr(sab.s)))),
                              EExists(<<Root, Dot(ka)>>)}}

\* the printer is only asked to round-trip trees without the leading-name form's ambiguity
Parse1(text, want) == [op |-> "jp_parse", raw |-> <<text>>, a |-> [want |-> want, plain |-> IF PathPlain(want) THEN 1 ELSE 0]]
ParseErr(text) == [op |-> "jp_parse", raw |-> <<text>>, a |-> [expect |-> "err"]]
ParseAny(op, text) == [op |-> op, raw |-> <<text>>, a |-> [expect |-> "any"]]

Out(s) == scr' = s /\ PrintT(ToJson(s)) /\ stage' = "script"

\* a dot/colon name is quoted by the style only where the tree's name can also be written bare
EmitPaths ==
  \E ps \in SynPaths, st \in Styles : \E fl \in {LitFL, LitFL2 \o FL} : Out(Parse1(PathTextOf(ps, st, fl), ps))

\* one certainly-invalid edit of a plain rendering
DropLast(t, c) == LET S == {i \in 1..Len(t) : t[i] = c} IN IF S = {} THEN t ELSE LET i == CHOOSE i \in S : \A j \in S : i >= j IN Sub(t, 1, i - 1) \o Sub(t, i + 1, Len(t))
DropFirst(t, c) == LET S == {i \in 1..Len(t) : t[i] = c} IN IF S = {} THEN t ELSE LET i == CHOOSE i \in S : \A j \in S : i <= j IN Sub(t, 1, i - 1) \o Sub(t, i + 1, Len(t))
Has(t, c) == \E i \in 1..Len(t) : t[i] = c
EmitPathFaults ==
  \E ps \in SynPaths :
    LET t == PathTextOf(ps, Plain, LitFL)
        tq == PathTextOf(ps, [ws |-> 0, kw |-> 0, quote |-> TRUE], LitFL)
    IN \/ (Has(t, 93) /\ ~Has(t, 34) /\ Out(ParseErr(DropLast(t, 93))))          \* unbalanced bracket
       \/ (Has(t, 91) /\ ~Has(t, 34) /\ Out(ParseErr(DropFirst(t, 91))))
       \/ (Has(t, 41) /\ ~Has(t, 34) /\ Out(ParseErr(DropLast(t, 41))))          \* unbalanced parenthesis
       \/ (Has(t, 40) /\ ~Has(t, 34) /\ Out(ParseErr(DropFirst(t, 40))))
       \/ (Has(tq, 34) /\ tq[Len(tq)] = 34 /\ Out(ParseErr(Sub(tq, 1, Len(tq) - 1))))   \* unterminated quote at the end
       \/ Out(ParseErr(t \o <<93>>)) \/ Out(ParseErr(t \o <<41>>)) \/ Out(ParseErr(t \o <<32, 36>>))      \* trailing garbage
       \/ Out(ParseErr(t \o <<91, 93>>)) \/ Out(ParseErr(t \o <<91, 44, 93>>))    \* empty index list
       \/ (ps[1].p = "root" /\ Out(ParseErr(t \o <<63, 40, 64, 61, 61, 41>>)))   \* dangling operator  ?(@==)
       \/ (ps[1].p = "root" /\ Out(ParseErr(t \o <<63, 40, 38, 38, 64, 61, 61, 49, 41>>)))  \* ?(&&@==1)
       \/ (ps[1].p = "root" /\ Out(ParseErr(t \o <<46>>))) \/ (ps[1].p = "root" /\ Out(ParseErr(t \o <<46, 46, 97>>)))
       \* a dangling sign or operator is never part of a name
       \/ (ps[1].p = "root" /\ ps[Len(ps)].p \in {"dot", "colon"} /\ \E c \in {45, 43, 42, 47, 37} : Out(ParseErr(t \o <<c>>)))

\* a stand-alone predicate speaks about the root only: `@` has no meaning there, however deep inside
\* parentheses, && / || or exists( ) it is written
\* (exists(@...) is accepted there by the implementation and evaluated with @ = $; the property is silent on it)
CurConds == {c1, c2, EBin("or", c1, c2), EBin("and", c2, c3), EBin("gt", EPaths(<<Cur>>), EVal(PNum(u1))),
             EBin("eq", EVal(PNum(u1)), EPaths(<<Cur, Dot(kb)>>))}
RootCond == EBin("gt", EPaths(<<Root, Dot(ka)>>), EVal(PNum(u1)))
Paren(t) == (<<40>> \o t) \o <<41>>
EmitPredFaults ==
  \E e \in CurConds, st \in {Plain, [ws |-> 1, kw |-> 0, quote |-> FALSE]} :
    LET t == ExprText(e, st, LitFL, 0)
        r == ExprText(RootCond, st, LitFL, 0)
    IN \/ Out(ParseErr(t)) \/ Out(ParseErr(Paren(t))) \/ Out(ParseErr(Paren(Paren(t))))
       \/ Out(ParseErr(ExprText(EBin("and", RootCond, e), st, LitFL, 0))) \/ Out(ParseErr(ExprText(EBin("or", e, RootCond), st, LitFL, 0)))
       \/ Out(ParseErr(((r \o <<38, 38>>) \o Paren(t)))) \/ Out(ParseErr((Paren(t) \o <<124, 124>>) \o r))
       \/ Out(ParseErr(((r \o <<32, 124, 124, 32>>) \o Paren((r \o <<38, 38>>) \o Paren(t)))))
SoupBytes == {36, 46, 97, 91, 93, 34, 92, 63, 40, 41, 64, 61, 49, 32, 42, 123, 125, 44, 45, 117}
EmitSoup == \E bs \in UNION {[1..k -> SoupBytes] : k \in 0..3} : Out(ParseAny("jp_parse", bs)) \/ Out(ParseAny("kp_parse", bs))
EmitSoup2 == \E bs \in [1..2 -> {34, 92, 117, 123, 97, 48}], pre \in {<<36, 46>>, <<36, 91>>, <<123>>, <<36, 63, 40, 64, 61, 61>>} :
                Out(ParseAny("jp_parse", pre \o bs)) \/ Out(ParseAny("kp_parse", pre \o bs))

\* ---- key paths
KpElems == {[i |-> 0], [i |-> 1], [i |-> -1], [i |-> 2147483647], [i |-> (0 - 2147483647) - 1],
            [n |-> ka], [n |-> kab], [n |-> <<97, 95, 49>>], [n |-> kE],
            [q |-> ka], [q |-> kEmpty], [q |-> <<97, 34, 98>>], [q |-> <<97, 32, 98>>], [q |-> kE], [q |-> <<49>>], [q |-> <<92>>],
            [q |-> <<97, 47, 98>>], [q |-> <<10, 240, 159, 152, 128>>], [q |-> <<127>>], [q |-> <<101, 204, 129>>], [q |-> <<226, 128, 139>>],
            [n |-> <<101, 204, 129>>]}
KpLists == UNION {[1..k -> KpElems] : k \in 0..2} \cup {<<[i |-> 1], [n |-> ka], [i |-> -2]>>, <<[n |-> ka], [q |-> kb], [q |-> <<99>>], [i |-> 0]>>}
KpParse(text, want) == [op |-> "kp_parse", raw |-> <<text>>, a |-> [want |-> want, plain |-> IF KpPlain(want) THEN 1 ELSE 0]]
KpErr(text) == [op |-> "kp_parse", raw |-> <<text>>, a |-> [expect |-> "err"]]
EmitKp == \E kp \in KpLists, st \in {Plain, [ws |-> 1, kw |-> 0, quote |-> FALSE], [ws |-> 2, kw |-> 0, quote |-> FALSE], [ws |-> 0, kw |-> 0, quote |-> FALSE, esc |-> 1],
               [ws |-> 0, kw |-> 0, quote |-> FALSE, nesc |-> 1], [ws |-> 1, kw |-> 0, quote |-> FALSE, nesc |-> 2],
               [ws |-> 0, kw |-> 0, quote |-> FALSE, nesc |-> 3], [ws |-> 0, kw |-> 0, quote |-> FALSE, nesc |-> 4]} : Out(KpParse(KeyPathText(kp, st), kp))
EmitKpFaults ==
  \E kp \in KpLists :
    LET t == KeyPathText(kp, Plain)
    IN \/ Out(KpErr(Sub(t, 1, Len(t) - 1)))                         \* missing closing brace
       \/ Out(KpErr(Sub(t, 2, Len(t))))                             \* missing opening brace
       \/ (Len(kp) > 0 /\ Out(KpErr(Sub(t, 1, Len(t) - 1) \o <<44, 125>>)))          \* trailing comma
       \/ (Len(kp) > 0 /\ Out(KpErr(<<123, 44>> \o Sub(t, 2, Len(t)))))              \* leading comma
       \/ Out(KpErr(Sub(t, 1, Len(t) - 1) \o (IF Len(kp) > 0 THEN <<44>> ELSE <<>>) \o <<34, 97, 125>>))   \* unterminated quote
       \/ Out(KpErr(Sub(t, 1, Len(t) - 1) \o (IF Len(kp) > 0 THEN <<44>> ELSE <<>>) \o <<45, 125>>))       \* sign without digits
       \/ Out(KpErr(t \o <<125>>)) \/ Out(KpErr(t \o <<97>>))                                            \* trailing garbage

\* spellings at the edge of the language: whether they are accepted is not specified here, a panic is not allowed
T(str) == str
OddPathTexts ==
  {<<36,91,108,97,115,116,32,45,32,45,50,49,52,55,52,56,51,54,52,56,93>>,   \* $[last - -2147483648]
   <<36,91,108,97,115,116,45,45,49,93>>, <<36,91,108,97,115,116,43,45,49,93>>, <<36,91,108,97,115,116,43,45,50,49,52,55,52,56,51,54,52,56,93>>,
   <<36,91,50,49,52,55,52,56,51,54,52,56,93>>, <<36,91,45,50,49,52,55,52,56,51,54,52,57,93>>, <<36,91,108,97,115,116,45,50,49,52,55,52,56,51,54,52,56,93>>,
   <<36,91,108,97,115,116,43,50,49,52,55,52,56,51,54,52,56,93>>, <<36,91,48,32,116,111,32,50,49,52,55,52,56,51,54,52,56,93>>,
   <<36,63,40,64,61,61,49,56,52,52,54,55,52,52,48,55,51,55,48,57,53,53,49,54,49,54,41>>, <<36,63,40,64,61,61,45,57,50,50,51,51,55,50,48,51,54,56,53,52,55,55,53,56,48,57,41>>,
   <<36,63,40,64,61,61,49,101,57,57,57,41>>, <<36,63,40,64,61,61,49,101,41>>, <<36,63,40,64,61,61,49,46,41>>, <<36,63,40,64,61,61,46,53,41>>, <<36,63,40,64,61,61,43,49,41>>,
   <<36,63,40,64,61,61,110,97,110,41>>, <<36,63,40,64,61,61,105,110,102,41>>, <<36,63,40,64,61,61,45,105,110,102,105,110,105,116,121,41>>,
   <<36,46,97,92>>, <<36,46,97,92,117>>, <<36,46,97,92,117,48,48>>, <<36,46,97,92,117,123,48,48,52,49>>, <<36,46,97,92,117,123,48,48,52,49,125>>, <<36,46,92,117,123,48,48,52,49,125,125>>,
   <<36,46,34,92,117,123,48,48,52,49,34>>, <<36,46,34,92,117,68,56,48,48,34>>, <<36,46,97,92,117,68,56,48,48,92,117,68,67,48,48>>, <<36,46,34,97,92>>, <<36,46,34,97,92,34>>,
   <<36,91,34,97,34>>, <<36,91,34,97>>, <<36,91,34>>, <<36,63,40,101,120,105,115,116,115,40,64,41>>, <<36,63,40,40,40,40,64,61,61,49,41,41,41>>}
OddKpTexts ==
  {<<123,50,49,52,55,52,56,51,54,52,56,125>>, <<123,45,50,49,52,55,52,56,51,54,52,57,125>>, <<123,43,49,125>>, <<123,45,125>>, <<123,107,92,117,123,48,48,52,49,125,125>>,
   <<123,107,92,117,48,48,52,49,125>>, <<123,107,92,117,123,48,48,52,49,125>>, <<123,34,92,117,123,48,48,52,49,34,125>>, <<123,34,92,117,123,48,48,52,49,125,34,125>>,
   <<123,97,92,125>>, <<123,97,92,117,125>>, <<123,92,117,68,56,48,48,125>>, <<123,34,92,117,68,56,48,48,34,125>>, <<123,34,97,92,34,125>>, <<123,49,97,125>>, <<123,97,32,98,125>>,
   <<123,125,125>>, <<123,123,125>>, <<32,123,32,44,32,125>>}
\* plain (unquoted) names whose bytes run through every UTF-8 continuation byte
LatinNames == {<<195, b>> : b \in 128..191} \cup {<<228, 189, 160>>, <<240, 159, 152, 133>>, <<226, 128, 168>>}
EmitLatin == \E n \in LatinNames :
                \/ Out(KpParse(KeyPathText(<<[n |-> n]>>, Plain), <<[n |-> n]>>))
                \/ Out(Parse1(PathTextOf(<<Root, Dot(n)>>, Plain, LitFL), <<Root, Dot(n)>>))
                \/ Out(Parse1(PathTextOf(<<Dot(n), Colon(n)>>, Plain, LitFL), <<Dot(n), Colon(n)>>))
\* characters beyond the basic plane, from several planes, raw and as escaped surrogate pairs, in quoted
\* names, quoted key-path elements and string literals
AstralNames == {<<240, 144, 128, 128>>, <<240, 159, 152, 128>>, <<240, 160, 174, 183>>, <<240, 175, 191, 191>>, <<243, 160, 128, 129>>, <<244, 143, 191, 191>>,
                <<97, 240, 160, 174, 183, 98>>}
AstralStyles == {[ws |-> 0, kw |-> 0, quote |-> TRUE, esc |-> 1], [ws |-> 0, kw |-> 0, quote |-> TRUE, esc |-> 0], Plain}
EmitAstral == \E n \in AstralNames, st \in AstralStyles :
                \/ Out(KpParse(KeyPathText(<<[q |-> n]>>, st), <<[q |-> n]>>))
                \/ Out(KpParse(KeyPathText(<<[n |-> n], [i |-> 0]>>, st), <<[n |-> n], [i |-> 0]>>))
                \/ Out(Parse1(PathTextOf(<<Root, Dot(n)>>, st, LitFL), <<Root, Dot(n)>>))
                \/ Out(Parse1(PathTextOf(<<Root, ObjF(n), Colon(n)>>, st, LitFL), <<Root, ObjF(n), Colon(n)>>))
                \/ LET ps == <<Root, FilterSt(EBin("eq", EPaths(<<Cur>>), EVal(PStr(n))))>> IN Out(Parse1(PathTextOf(ps, st, LitFL), ps))
\* \u escapes with one byte that is not a hexadecimal digit (the neighbours of the digit ranges, signs, space), in
\* each of the four positions, plain and braced: never a name
NotHex == {43, 45, 32, 47, 58, 64, 71, 96, 103, 120}
BadEsc(c, k, br) == LET u == [i \in 1..4 |-> IF i = k THEN c ELSE <<48, 48, 52, 49>>[i]] IN IF br THEN (<<92, 117, 123>> \o u) \o <<125>> ELSE <<92, 117>> \o u
EmitBadEsc == \E c \in NotHex, k \in 1..4, br \in BOOLEAN :
                 \/ Out(ParseErr((<<36, 46, 34>> \o BadEsc(c, k, br)) \o <<34>>))        \* $."\u+041"
                 \/ Out(ParseErr((<<36, 46, 97>> \o BadEsc(c, k, br))))                  \* $.a\u+041
                 \/ Out([op |-> "kp_parse", raw |-> <<(<<123, 34>> \o BadEsc(c, k, br)) \o <<34, 125>>>>, a |-> [expect |-> "err"]])
\* integers at and beyond the ends of the i32 range wherever the path languages take a number
ExtNums == {<<50,49,52,55,52,56,51,54,52,55>>, <<50,49,52,55,52,56,51,54,52,56>>, <<45,50,49,52,55,52,56,51,54,52,56>>, <<45,50,49,52,55,52,56,51,54,52,57>>,
            <<45,50,49,52,55,52,56,51,54,52,55>>, <<52,50,57,52,57,54,55,50,57,54>>, <<57,50,50,51,51,55,50,48,51,54,56,53,52,55,55,53,56,48,56>>,
            <<45,48>>, <<43,49>>, <<48>>}
Kw(l) == <<108, 97, 115, 116>> \o l
EmitExtremeText ==
  \E n \in ExtNums, m \in ExtNums :
     \/ Out(ParseAny("jp_parse", (<<36, 91>> \o n) \o <<93>>))
     \/ Out(ParseAny("jp_parse", (<<36, 91>> \o Kw(<<45>> \o n)) \o <<93>>)) \/ Out(ParseAny("jp_parse", (<<36, 91>> \o Kw(<<32, 45, 32>> \o n)) \o <<93>>))
     \/ Out(ParseAny("jp_parse", (<<36, 91>> \o Kw(<<43>> \o n)) \o <<93>>)) \/ Out(ParseAny("jp_parse", (<<36, 91>> \o Kw(<<32, 43, 32>> \o n)) \o <<93>>))
     \/ Out(ParseAny("jp_parse", ((<<36, 91>> \o n) \o <<32, 116, 111, 32>> \o m) \o <<93>>))
     \/ Out(ParseAny("jp_parse", ((<<36, 91>> \o Kw(<<45>> \o n)) \o <<32, 116, 111, 32>> \o Kw(<<43>> \o m)) \o <<93>>))
     \/ Out(ParseAny("jp_parse", (<<36, 63, 40, 64, 62>> \o n) \o <<41>>))
     \/ Out(ParseAny("kp_parse", (<<123>> \o n) \o <<125>>)) \/ Out(ParseAny("kp_parse", ((<<123, 97, 44>> \o n) \o <<44>> \o m) \o <<125>>))
EmitOdd == (\E t \in OddPathTexts : Out(ParseAny("jp_parse", t))) \/ (\E t \in OddKpTexts : Out(ParseAny("kp_parse", t)))
\* every byte-prefix of the odd texts and of renderings that carry escapes: input may stop anywhere
EscStyles == {[ws |-> 0, kw |-> 0, quote |-> FALSE, nesc |-> 1], [ws |-> 0, kw |-> 0, quote |-> FALSE, nesc |-> 2], [ws |-> 0, kw |-> 0, quote |-> TRUE, esc |-> 1]}
PrefixKp == OddKpTexts \cup {KeyPathText(kp, st) : kp \in {<<[n |-> kab], [q |-> kE]>>, <<[q |-> <<10, 240, 159, 152, 128>>], [n |-> ka], [i |-> -1]>>}, st \in EscStyles}
PrefixJp == OddPathTexts \cup {PathTextOf(ps, st, LitFL) : ps \in {<<Root, Dot(kab), ObjF(kE)>>, <<Dot(ka), Colon(kab)>>,
                                                                  <<Root, FilterSt(EBin("eq", EPaths(<<Cur, Dot(kab)>>), EVal(PStr(<<240, 159, 152, 128, 9>>))))>>}, st \in EscStyles}
EmitPrefixes == (\E t \in PrefixKp : \E k \in 0..Len(t) : Out(ParseAny("kp_parse", Sub(t, 1, k))))
                \/ (\E t \in PrefixJp : \E k \in 0..Len(t) : Out(ParseAny("jp_parse", Sub(t, 1, k))))

Init == stage = "start" /\ scr = [op |-> "none"]
Next ==
  /\ stage = "start"
  /\ CASE Family = "paths" -> EmitPaths
       [] Family = "pathfaults" -> EmitPathFaults \/ EmitPredFaults
       [] Family = "soup" -> EmitSoup \/ EmitSoup2 \/ EmitOdd \/ EmitPrefixes \/ EmitAstral \/ EmitBadEsc
       [] Family = "extreme" -> EmitExtremeText
       [] Family = "kp" -> EmitKp \/ EmitLatin
       [] Family = "kpfaults" -> EmitKpFaults
       [] OTHER -> FALSE
Spec == Init /\ [][Next]_vars
GenInv == TRUE
=============================================================================
