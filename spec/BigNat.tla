------------------------------- MODULE BigNat ------------------------------
(***************************************************************************)
(* Arbitrary-precision naturals as little-endian sequences of base-2^15    *)
(* digits (every intermediate product fits TLC's 32-bit integers), and the *)
(* exact test "these 64 bits are the correctly rounded binary64 of this    *)
(* decimal lexeme" (round to nearest, ties to even; overflow to infinity). *)
(* This replaces any floating-point library as the oracle for decimal <->  *)
(* binary conversions: the code's answer is checked, not recomputed.       *)
(***************************************************************************)
EXTENDS Num

Base == 32768

RECURSIVE StripHigh(_)
StripHigh(a) == IF a = <<>> THEN <<>> ELSE IF a[Len(a)] = 0 THEN StripHigh(Sub(a, 1, Len(a) - 1)) ELSE a

RECURSIVE MulSmallFrom(_, _, _, _)
\* a * c + carry, c < Base
MulSmallFrom(a, c, i, carry) ==
  IF i > Len(a) THEN (IF carry = 0 THEN <<>> ELSE <<carry>>)
  ELSE LET v == (a[i] * c) + carry
       IN <<v % Base>> \o MulSmallFrom(a, c, i + 1, v \div Base)
MulSmall(a, c) == IF c = 0 THEN <<>> ELSE MulSmallFrom(a, c, 1, 0)
MulAddSmall(a, c, d) == MulSmallFrom(a, c, 1, d)

RECURSIVE FromDigitsAcc(_, _)
FromDigitsAcc(ds, acc) == IF ds = <<>> THEN acc ELSE FromDigitsAcc(Tail(ds), MulAddSmall(acc, 10, Head(ds)))
\* decimal digits, most significant first
FromDigits(ds) == StripHigh(FromDigitsAcc(ds, <<>>))

\* multiply by 2^s
ShiftLeft(a, s) == IF a = <<>> THEN <<>> ELSE Rep(0, s \div 15) \o MulSmall(a, 2 ^ (s % 15))

RECURSIVE MulPow5(_, _)
MulPow5(a, n) == IF n = 0 THEN a ELSE IF n >= 6 THEN MulPow5(MulSmall(a, 15625), n - 6) ELSE MulPow5(MulSmall(a, 5), n - 1)

\* from a bit sequence (MSB first) of at most 60 bits
RECURSIVE FromBitsAcc(_, _)
FromBitsAcc(bits, acc) == IF bits = <<>> THEN acc ELSE FromBitsAcc(Tail(bits), MulAddSmall(acc, 2, Head(bits)))
FromBits(bits) == StripHigh(FromBitsAcc(bits, <<>>))

BigCmp(a, b) ==
  IF Len(a) # Len(b) THEN (IF Len(a) < Len(b) THEN -1 ELSE 1)
  ELSE LET D == {i \in 1..Len(a) : a[i] # b[i]}
       IN IF D = {} THEN 0
          ELSE LET i == CHOOSE i \in D : \A j \in D : i >= j IN IF a[i] < b[i] THEN -1 ELSE 1

\* compare D * 10^e10 with M * 2^q (D, M big naturals; e10, q integers)
CmpScaled(D, e10, M, q) ==
  IF e10 >= 0
  THEN LET L == MulPow5(D, e10)
       IN IF e10 >= q THEN BigCmp(ShiftLeft(L, e10 - q), M) ELSE BigCmp(L, ShiftLeft(M, q - e10))
  ELSE LET n == 0 - e10
           R == MulPow5(M, n)
       IN IF q + n >= 0 THEN BigCmp(D, ShiftLeft(R, q + n)) ELSE BigCmp(ShiftLeft(D, 0 - (q + n)), R)

----------------------------------------------------------------------------
(* A decimal number: [neg, ds, e10] meaning (-1)^neg * ds * 10^e10, ds without leading     *)
(* zeros (empty for zero).                                                                  *)
RECURSIVE StripLeadingZeros(_)
StripLeadingZeros(ds) == IF ds # <<>> /\ Head(ds) = 0 THEN StripLeadingZeros(Tail(ds)) ELSE ds

\* an upper bound on the work CheckRN will do; beyond it the check is not attempted
RNFeasible(dec) == Len(dec.ds) <= 120 /\ dec.e10 <= 700 /\ dec.e10 >= -1200

DecBits(bits) == NotBits(IncBits(NotBits(bits)))
One53 == <<1>> \o Rep(0, 52)
MaxSig == Rep(1, 53)

(***************************************************************************)
(* IsRN(dec, bits): bits (64, MSB first) is RN-even(dec).  x = |dec|.      *)
(*   zero      iff x <= 2^-1075                                            *)
(*   infinity  iff x >= (2^54 - 1) * 2^970                                 *)
(*   finite m*2^k: lo <= x <= hi, ends included iff m even, where          *)
(*      hi = (2m+1)*2^(k-1),  lo = (2m-1)*2^(k-1), except at a binade      *)
(*      boundary (m = 2^52, not the smallest exponent): lo = (4m-1)*2^(k-2)*)
(***************************************************************************)
IsRN(dec, bits) ==
  LET D == FromDigits(dec.ds)
      signOk == FSign(bits) = (IF dec.neg THEN 1 ELSE 0)
  IN IF FIsNaN(bits) THEN FALSE
     ELSE IF ~signOk THEN FALSE
     ELSE IF D = <<>> THEN FIsZero(bits)
     ELSE IF FIsZero(bits) THEN CmpScaled(D, dec.e10, <<1>>, -1075) <= 0
     ELSE IF FIsInf(bits) THEN CmpScaled(D, dec.e10, FromBits(Rep(1, 54)), 970) >= 0
     ELSE
       LET m == FSig(bits)
           k == FE(bits) - 1075
           even == m[53] = 0
           hiM == FromBits(m \o <<1>>)              \* 2m + 1
           boundary == m = One53 /\ FE(bits) > 1
           \* 2m - 1 = 2(m - 1) + 1;  at a binade boundary 4m - 1 = 2^54 - 1
           loM == IF boundary THEN FromBits(Rep(1, 54)) ELSE FromBits(DecBits(m) \o <<1>>)
           loQ == IF boundary THEN k - 2 ELSE k - 1
           cl == CmpScaled(D, dec.e10, loM, loQ)
           ch == CmpScaled(D, dec.e10, hiM, k - 1)
       IN (cl > 0 \/ (cl = 0 /\ even)) /\ (ch < 0 \/ (ch = 0 /\ even))
=============================================================================
