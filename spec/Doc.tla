-------------------------------- MODULE Doc --------------------------------
(***************************************************************************)
(* The abstract JSON document.                                             *)
(*   [k |-> "null"] | [k |-> "true"] | [k |-> "false"]                     *)
(*   [k |-> "num", r, b]        a Num number                               *)
(*   [k |-> "str", s]           s: UTF-8 bytes                             *)
(*   [k |-> "arr", a]           a: sequence of documents                   *)
(*   [k |-> "obj", o]           o: sequence of <<key bytes, document>>,    *)
(*                              strictly ascending by key bytes            *)
(***************************************************************************)
EXTENDS Num

Null  == [k |-> "null"]
True  == [k |-> "true"]
False == [k |-> "false"]
Bool(v) == IF v THEN True ELSE False
NumD(n) == [k |-> "num", r |-> n.r, b |-> n.b]
Str(s) == [k |-> "str", s |-> s]
Arr(a) == [k |-> "arr", a |-> a]
Obj(o) == [k |-> "obj", o |-> o]

IsContainer(d) == d.k \in {"arr", "obj"}
IsScalar(d) == ~IsContainer(d)
NumOf(d) == [r |-> d.r, b |-> d.b]

KeysOf(d) == [i \in 1..Len(d.o) |-> d.o[i][1]]
ValsOf(d) == [i \in 1..Len(d.o) |-> d.o[i][2]]
SortedKeys(o) == \A i \in 1..(Len(o) - 1) : LexCmp(o[i][1], o[i + 1][1]) = -1

RECURSIVE IsDoc(_)
IsDoc(d) ==
  CASE d.k \in {"null", "true", "false"} -> TRUE
    [] d.k = "num" -> d.r \in {"u", "i", "f"} /\ Len(d.b) = 8
    [] d.k = "str" -> TRUE
    [] d.k = "arr" -> \A i \in 1..Len(d.a) : IsDoc(d.a[i])
    [] d.k = "obj" -> SortedKeys(d.o) /\ \A i \in 1..Len(d.o) : IsDoc(d.o[i][2])
    [] OTHER -> FALSE

\* nesting depth: scalars 0
RECURSIVE Depth(_)
Depth(d) ==
  IF d.k = "arr" THEN 1 + (IF Len(d.a) = 0 THEN 0 ELSE
        LET S == {Depth(d.a[i]) : i \in 1..Len(d.a)} IN CHOOSE m \in S : \A x \in S : x <= m)
  ELSE IF d.k = "obj" THEN 1 + (IF Len(d.o) = 0 THEN 0 ELSE
        LET S == {Depth(d.o[i][2]) : i \in 1..Len(d.o)} IN CHOOSE m \in S : \A x \in S : x <= m)
  ELSE 0

\* what a document reads back as after a binary round trip (numbers canonicalised)
RECURSIVE Canon(_)
Canon(d) ==
  CASE d.k = "num" -> NumD(CanonNum(NumOf(d)))
    [] d.k = "arr" -> Arr([i \in 1..Len(d.a) |-> Canon(d.a[i])])
    [] d.k = "obj" -> Obj([i \in 1..Len(d.o) |-> <<d.o[i][1], Canon(d.o[i][2])>>])
    [] OTHER -> d

\* equality as JSON values: numbers by numeric value
RECURSIVE DocEq(_, _)
DocEq(x, y) ==
  IF x.k # y.k THEN FALSE
  ELSE CASE x.k = "num" -> NumEq(NumOf(x), NumOf(y))
         [] x.k = "str" -> x.s = y.s
         [] x.k = "arr" -> Len(x.a) = Len(y.a) /\ \A i \in 1..Len(x.a) : DocEq(x.a[i], y.a[i])
         [] x.k = "obj" -> Len(x.o) = Len(y.o) /\ \A i \in 1..Len(x.o) :
                              x.o[i][1] = y.o[i][1] /\ DocEq(x.o[i][2], y.o[i][2])
         [] OTHER -> TRUE

----------------------------------------------------------------------------
\* insertion of a member into a sorted member list, replacing an equal key (last wins)
PutMember(o, key, val) ==
  LET lt == {i \in 1..Len(o) : LexCmp(o[i][1], key) = -1}
      n == Cardinality(lt)
      rest == IF n < Len(o) /\ o[n + 1][1] = key THEN Sub(o, n + 2, Len(o)) ELSE Sub(o, n + 1, Len(o))
  IN Sub(o, 1, n) \o << <<key, val>> >> \o rest

\* the object a list of <<key, value>> pairs denotes (any order, duplicates: last wins)
RECURSIVE MembersOf(_, _)
MembersOf(pairs, acc) ==
  IF pairs = <<>> THEN acc
  ELSE MembersOf(Tail(pairs), PutMember(acc, Head(pairs)[1], Head(pairs)[2]))
ObjOfPairs(pairs) == Obj(MembersOf(pairs, <<>>))

\* index of key in a sorted member list, 0 if absent
FindKey(o, key) ==
  LET S == {i \in 1..Len(o) : o[i][1] = key}
  IN IF S = {} THEN 0 ELSE CHOOSE i \in S : TRUE
=============================================================================
