------------------------------ MODULE GenFault -----------------------------
(***************************************************************************)
(* Spec -> implementation for the binary decoders on untrusted bytes       *)
(* (C10).  The fault model: starting from the encoding of a document, one  *)
(* fault - truncation at every offset, each bit flipped, each byte set to  *)
(* each value of a boundary set, a byte inserted or deleted at every       *)
(* offset - or two of them.  Truncations carry the claim "proper prefix of *)
(* a valid encoding", which the validator re-checks before it demands an   *)
(* error.  Also JSON texts that look like binary headers (first byte in    *)
(* 0x20..0x5F) for the text-fallback clause.                               *)
(* Laws checked on the way: the strict decoder rejects every proper prefix *)
(* and every document's encoding is canonical.                             *)
(***************************************************************************)
EXTENDS Universe, JsonText, Json, TLC

CONSTANTS Family, Double

VARIABLES stage, doc, scr
vars == <<stage, doc, scr>>

kSm == <<240, 159, 152, 128>>
kSmE == <<240, 159, 152, 128, 195, 169>>
FaultDocs ==
  {Null, True, u0, u1, u256, im1, f15, fnan, sEmpty, sab, sE, Arr(<<>>), Obj(<<>>)}
  \cup RepL1
  \cup {Arr(<<u256, Null, f15>>), Arr(<<Arr(<<u1, sab>>), Obj(<< <<ka, Null>> >>)>>),
        Obj(<< <<kB, u1>>, <<ka, Arr(<<sE, f15>>)>> >>), Obj(<< <<kE, Obj(<< <<kab, Null>>, <<kb, sQuote>> >>)>> >>),
        Arr(<<sSmile, sE>>), Obj(<< <<kE, sE>> >>), Obj(<< <<kE, Null>>, <<kEb, True>> >>), Obj(<< <<ka, Null>>, <<kE, False>>, <<kEb, sa>> >>),
        Obj(<< <<kSm, Null>>, <<kSmE, Null>> >>), Arr(<<u1, Str(Rep(64, 20))>>), Arr(<<Str(Rep(80, 17)), im1, Str(Rep(97, 36))>>), Arr(<<True, False, Null, sEmpty>>), Arr(<<u65536, u2p32, im129>>)}
SmallDocs == {Null, u1, sab, Arr(<<>>), Obj(<<>>), Arr(<<u1>>), Obj(<< <<ka, Null>> >>), Arr(<<sa, u1>>)}

ByteVals == {0, 1, 2, 3, 5, 9, 16, 17, 32, 33, 48, 64, 80, 96, 112, 127, 128, 255}

\* one fault applied to a byte string
Truncate(b, k) == Sub(b, 1, k)
FlipBit(b, p, bit) == [b EXCEPT ![p] = IF (b[p] \div (2 ^ bit)) % 2 = 1 THEN b[p] - (2 ^ bit) ELSE b[p] + (2 ^ bit)]
SetByte(b, p, v) == [b EXCEPT ![p] = v]
InsertByte(b, p, v) == Sub(b, 1, p - 1) \o <<v>> \o Sub(b, p, Len(b))
DeleteByte(b, p) == Sub(b, 1, p - 1) \o Sub(b, p + 1, Len(b))

\* the pre-allocation of the decoder is bounded by the header count; keep rewritten counts
\* below 2^24 entries so that the outcome does not depend on the host's overcommit policy
CountCapOk(b) == Len(b) = 0 \/ b[1] % 32 = 0

Faults1(b) ==
  {FlipBit(b, p, bit) : p \in 1..Len(b), bit \in 0..7}
  \cup {SetByte(b, p, v) : p \in 1..Len(b), v \in ByteVals}
  \cup {InsertByte(b, p, v) : p \in 1..(Len(b) + 1), v \in ByteVals}
  \cup {DeleteByte(b, p) : p \in 1..Len(b)}

DecodeScr(b, extra) == [op |-> "decode", raw |-> <<Tup(b)>>, a |-> extra]
Out(s) == scr' = s /\ PrintT(ToJson(s)) /\ stage' = "script" /\ UNCHANGED doc

\* JSON texts of at least 8 bytes that look like scalar / object headers
HeaderLikeTexts ==
  {<<49,50,51,52,53,54,55,56>>, <<34,97,98,99,48,49,50,51,34>>, <<45,49,50,51,46,52,53,54>>, <<49,50,51,52,46,53,54,55,56>>,
   <<34,102,111,111,32,98,97,114,34>>, <<91,49,44,50,44,51,44,52,93>>, <<91,34,97,34,44,34,98,34,93>>, <<123,34,97,34,58,49,50,51,125>>,
   <<116,114,117,101,10,10,10,10>>, <<110,117,108,108,9,9,9,9,9>>, <<10,49,50,51,52,53,54,55,56>>, <<9,34,97,98,99,100,101,102,34>>,
   <<48,46,48,48,48,48,48,48,49>>, <<49,101,49,48,48,48,48,48,48>>, <<34,92,117,48,48,52,49,34,10>>, <<45,48,46,48,48,48,48,48,48>>,
   <<34,48,48,48,48,48,48,34>>, <<34,32,32,32,32,32,32,34>>, <<49,32,32,32,32,32,32,32>>, <<50,53,53,48,48,48,48,48,48,48>>}

\* JSON-looking bytes whose strings or keys are not well-formed UTF-8, next to escapes and plain characters:
\* whatever the decoders answer, no string in it may be ill-formed
BadUnits == {<<255>>, <<195>>, <<128>>, <<192, 128>>, <<237, 160, 128>>, <<240, 159, 152>>, <<244, 144, 128, 128>>}
Around == {<<>>, <<97>>, <<92, 110>>, <<92, 117, 48, 48, 52, 49>>, <<195, 169>>, <<10>>}
BadUtf8Texts == {<<34>> \o pre \o u \o post \o <<34>> : pre \in Around, u \in BadUnits, post \in Around}
                \cup {<<123, 34>> \o pre \o u \o post \o <<34, 58, 49, 125>> : pre \in {<<>>, <<92, 110>>}, u \in BadUnits, post \in {<<>>, <<97>>}}
                \cup {<<91, 49, 44, 34>> \o pre \o u \o post \o <<34, 93>> : pre \in {<<>>, <<92, 110>>}, u \in BadUnits, post \in {<<>>, <<97>>}}
Init == stage = "start" /\ doc = [k |-> "nil"] /\ scr = [op |-> "none"]
Pick == stage = "start" /\ Family = "fault" /\ doc' \in (IF Double THEN SmallDocs ELSE FaultDocs) /\ stage' = "doc" /\ UNCHANGED scr
EmitFaults ==
  /\ stage = "doc"
  /\ LET b == Encode(doc)
     IN \/ Out(DecodeScr(b, [intact |-> doc]))
        \/ \E k \in 0..(Len(b) - 1) : Out(DecodeScr(Truncate(b, k), [of |-> doc, cut |-> k]))
        \/ (~Double /\ \E f \in Faults1(b) : CountCapOk(f) /\ Out(DecodeScr(f, [z |-> 0])))
        \/ (Double /\ \E f \in Faults1(b) : \E g \in Faults1(f) : CountCapOk(g) /\ Out(DecodeScr(g, [z |-> 0])))
EmitTexts ==
  /\ stage = "start" /\ Family = "texts"
  /\ \/ \E t \in HeaderLikeTexts : Out(DecodeScr(t, [text |-> 1]))
     \/ \E t \in BadUtf8Texts : Out(DecodeScr(t, [z |-> 0]))
Next == Pick \/ EmitFaults \/ EmitTexts
Spec == Init /\ [][Next]_vars

GenInv ==
  stage = "script" =>
    /\ ("of" \in DOMAIN scr.a => Decode(scr.raw[1]) = Err)
    /\ ("intact" \in DOMAIN scr.a => Decode(scr.raw[1]) = Canon(scr.a.intact) /\ IsCanonical(scr.raw[1]))
    /\ ("text" \in DOMAIN scr.a => Parse(scr.raw[1], TRUE) # Err)
=============================================================================
