-------------------------------- MODULE Path -------------------------------
(***************************************************************************)
(* SQL/JSONPath: abstract syntax, evaluation to an ordered list of items,  *)
(* result modes.  Syntax trees are the records the harness logs:           *)
(*   step:  [p |-> "root"|"cur"|"dotw"|"brw"] | [p |-> "dot"|"colon"|"objf", n |-> bytes]       *)
(*          | [p |-> "idx", ix |-> <<ai...>>] | [p |-> "filter"|"pred"|"arith", e |-> expr]       *)
(*   ai:    [x |-> "i", i |-> index] | [x |-> "s", s |-> index, e |-> index]                      *)
(*   index: [t |-> "n"|"l", v |-> Int]            ("l": last + v)                                *)
(*   expr:  [e |-> "paths", ps] | [e |-> "val", v |-> pv] | [e |-> "bin", op, l, r]               *)
(*          | [e |-> "exists", ps] | [e |-> "un"|"ar", ...] (arithmetic: not evaluable)           *)
(*   pv:    [v |-> "null"] | [v |-> "bool", b] | [v |-> "num", r, b] | [v |-> "str", s]           *)
(* An item is [d |-> document, rs |-> BOOLEAN]; rs marks the scalar root   *)
(* itself, which is selectable but contributes no operand (deviation D6).  *)
(***************************************************************************)
EXTENDS Ops

Item(d) == [d |-> d, rs |-> FALSE]
RootItem(root) == [d |-> root, rs |-> IsScalar(root)]

\* The position an index form denotes in an array of length len, in exact integer arithmetic
\* ("l": last + v, i.e. len - 1 + v).  TLC integers are 32 bits wide and v ranges over all of
\* i32, so the position is computed saturated to -1 (below the array) .. len (above it); that
\* loses nothing: only "below", "above" or the exact in-range position matter.
ClampPos(ix, len) ==
  IF ix.t = "n"
  THEN (IF ix.v < 0 THEN -1 ELSE IF ix.v >= len THEN len ELSE ix.v)
  ELSE (IF ix.v > 0 THEN len ELSE IF ix.v < 1 - len THEN -1 ELSE (len - 1) + ix.v)

\* positions selected by one entry of an index list, in order: a single index selects its
\* element when in range; a range start..end selects nothing when start > end or it lies
\* wholly outside, else the positions of its intersection with the array
AiPositions(ai, len) ==
  IF ai.x = "i"
  THEN LET p == ClampPos(ai.i, len) IN IF p >= 0 /\ p < len THEN <<p>> ELSE <<>>
  ELSE LET s == ClampPos(ai.s, len)
           e == ClampPos(ai.e, len)
       IN IF s > e \/ s = len \/ e = -1 THEN <<>>
          ELSE LET s2 == IF s < 0 THEN 0 ELSE s
                   e2 == IF e >= len THEN len - 1 ELSE e
               IN [i \in 1..((e2 - s2) + 1) |-> (s2 + i) - 1]

\* one navigation step applied to one item
Step(st, it) ==
  LET d == it.d
  IN CASE st.p = "dotw" -> IF d.k = "obj" THEN [i \in 1..Len(d.o) |-> Item(d.o[i][2])] ELSE <<>>
       [] st.p = "brw" -> IF d.k = "arr" THEN [i \in 1..Len(d.a) |-> Item(d.a[i])] ELSE <<it>>
       [] st.p \in {"dot", "colon", "objf"} ->
            IF d.k = "obj" /\ FindKey(d.o, st.n) # 0 THEN <<Item(d.o[FindKey(d.o, st.n)][2])>> ELSE <<>>
       [] st.p = "idx" ->
            IF d.k = "arr" /\ Len(d.a) > 0
            THEN LET ps == Flat([j \in 1..Len(st.ix) |-> AiPositions(st.ix[j], Len(d.a))])
                 IN [i \in 1..Len(ps) |-> Item(d.a[ps[i] + 1])]
            ELSE <<>>

----------------------------------------------------------------------------
(* comparison of operand values: Null < Boolean < Number < String across kinds (D4) *)
PvRank(v) == CASE v.v = "null" -> 0 [] v.v = "bool" -> 1 [] v.v = "num" -> 2 [] v.v = "str" -> 3
PvCmp(x, y) ==
  IF PvRank(x) # PvRank(y) THEN (IF PvRank(x) < PvRank(y) THEN -1 ELSE 1)
  ELSE CASE x.v = "null" -> 0
         [] x.v = "bool" -> IF x.b = y.b THEN 0 ELSE IF x.b < y.b THEN -1 ELSE 1
         [] x.v = "num" -> NumCmp([r |-> x.r, b |-> x.b], [r |-> y.r, b |-> y.b])
         [] x.v = "str" -> LexCmp(x.s, y.s)
OpHolds(op, c) ==
  CASE op = "eq" -> c = 0 [] op = "ne" -> c # 0 [] op = "lt" -> c < 0 [] op = "le" -> c <= 0
    [] op = "gt" -> c > 0 [] op = "ge" -> c >= 0

\* the operand value of a scalar item
PvOf(d) ==
  CASE d.k = "null" -> [v |-> "null"] [] d.k = "true" -> [v |-> "bool", b |-> 1] [] d.k = "false" -> [v |-> "bool", b |-> 0]
    [] d.k = "num" -> [v |-> "num", r |-> CanonNum(NumOf(d)).r, b |-> CanonNum(NumOf(d)).b]
    [] d.k = "str" -> [v |-> "str", s |-> d.s]

\* evaluation results: [ok |-> TRUE, v |-> items] or Bad; conditions: "T", "F" or "E"
Bad == [ok |-> FALSE]
Good(v) == [ok |-> TRUE, v |-> v]

RECURSIVE Eval(_, _, _), EvalFrom(_, _, _, _), FilterItems(_, _, _, _, _), Holds(_, _, _), Operands(_, _, _)

\* items selected by a path from the root (or from the current item when it starts with @);
\* Bad when the path holds something that cannot be evaluated
Eval(ps, root, cur) ==
  LET start == IF Len(ps) > 0 /\ ps[1].p = "cur" THEN cur ELSE RootItem(root)
  IN EvalFrom(ps, 1, <<start>>, root)

EvalFrom(ps, i, items, root) ==
  IF i > Len(ps) THEN Good(items)
  ELSE LET st == ps[i]
       IN IF st.p \in {"root", "cur"} THEN EvalFrom(ps, i + 1, items, root)
          ELSE IF st.p \in {"filter", "pred"}
               THEN LET f == FilterItems(st.e, items, 1, <<>>, root)
                    IN IF f.ok THEN EvalFrom(ps, i + 1, f.v, root) ELSE Bad
          ELSE IF st.p = "arith" THEN Bad
          ELSE EvalFrom(ps, i + 1, Flat([j \in 1..Len(items) |-> Step(st, items[j])]), root)

FilterItems(e, items, j, acc, root) ==
  IF j > Len(items) THEN Good(acc)
  ELSE LET h == Holds(e, root, items[j])
       IN IF h = "E" THEN Bad
          ELSE FilterItems(e, items, j + 1, IF h = "T" THEN Append(acc, items[j]) ELSE acc, root)

\* operand values of one side of a comparison: a literal, or the scalar items a path selects
Operands(e, root, cur) ==
  IF e.e = "val" THEN Good(<<e.v>>)
  ELSE IF e.e = "paths"
  THEN LET its == Eval(e.ps, root, cur)
       IN IF ~its.ok THEN Bad
          ELSE LET sc == SelectSeq(its.v, LAMBDA it : IsScalar(it.d) /\ ~it.rs)
               IN Good([i \in 1..Len(sc) |-> PvOf(sc[i].d)])
  ELSE Bad

TF(b) == IF b THEN "T" ELSE "F"
Holds(e, root, cur) ==
  CASE e.e = "bin" ->
         IF e.op \in {"and", "or"}
         THEN LET a == Holds(e.l, root, cur)
                  b == Holds(e.r, root, cur)
              IN IF a = "E" \/ b = "E" THEN "E"
                 ELSE IF e.op = "and" THEN TF(a = "T" /\ b = "T") ELSE TF(a = "T" \/ b = "T")
         ELSE LET L == Operands(e.l, root, cur)
                  R == Operands(e.r, root, cur)
              IN IF ~L.ok \/ ~R.ok THEN "E"
                 ELSE TF(\E i \in 1..Len(L.v), j \in 1..Len(R.v) : OpHolds(e.op, PvCmp(L.v[i], R.v[j])))
    [] e.e = "exists" -> LET its == Eval(e.ps, root, cur) IN IF ~its.ok THEN "E" ELSE TF(Len(its.v) > 0)
    [] OTHER -> "E"      \* arithmetic and bare operands are not filter conditions

IsPredicate(ps) == Len(ps) = 1 /\ ps[1].p = "pred"

\* the documents a path selects, in order, or Bad
Select(ps, root) ==
  LET its == Eval(ps, root, RootItem(root))
  IN IF ~its.ok THEN Bad ELSE Good([i \in 1..Len(its.v) |-> its.v[i].d])

----------------------------------------------------------------------------
(* result modes: what is appended to the caller's data buffer and offsets vector *)
RECURSIVE RunningEnds(_, _)
RunningEnds(chunks, base) ==
  IF chunks = <<>> THEN <<>> ELSE <<base + Len(Head(chunks))>> \o RunningEnds(Tail(chunks), base + Len(Head(chunks)))

ModeItems(mode, docs) ==
  CASE mode = "all" -> docs
    [] mode = "first" -> IF Len(docs) > 0 THEN <<docs[1]>> ELSE <<>>
    [] mode = "array" -> <<Arr(docs)>>
    [] mode = "mixed" -> IF Len(docs) >= 2 THEN <<Arr(docs)>> ELSE docs
=============================================================================
