------------------------------ MODULE GenPath ------------------------------
(***************************************************************************)
(* Spec -> implementation for JSONPath evaluation and result modes (C08,   *)
(* C15, C17): TLC enumerates abstract paths (step sequences, index forms,  *)
(* filters with every operator and literal kind, nested filters, exists,   *)
(* root-relative operands, stand-alone predicates) x a document universe   *)
(* with empty containers, scalar roots and container-valued members.       *)
(* Laws checked on every case: the modes are mutually consistent by        *)
(* construction of ModeItems; evaluation of a concatenated path is the     *)
(* composition of its parts.                                               *)
(***************************************************************************)
EXTENDS PathAst, PathText, Json, TLC

CONSTANTS Family, MaxSteps

VARIABLES stage, doc, scr
vars == <<stage, doc, scr>>

NoArg == [z |-> 0]
Sel(ps, d, extra) == [op |-> "select", d |-> <<d>>, a |-> [path |-> ps] @@ extra]

Init == stage = "start" /\ doc = [k |-> "nil"] /\ scr = [op |-> "none"]
Pick == stage = "start" /\ doc' \in PathDocs /\ stage' = "doc" /\ UNCHANGED scr
Out(s) == scr' = s /\ PrintT(ToJson(s)) /\ stage' = "script" /\ UNCHANGED doc

EmitNav == \E ss \in UNION {[1..k -> NavSteps] : k \in 0..MaxSteps} : Out(Sel(<<Root>> \o ss, doc, NoArg))
EmitFilter ==
  \/ \E f \in FilterSteps : Out(Sel(<<Root, f>>, doc, NoArg))
  \/ \E f \in FilterSteps, s \in {BrW, Dot(ka), DotW} : Out(Sel(<<Root, s, f>>, doc, NoArg))
  \/ \E f \in FilterSteps, s \in {BrW, Dot(ka), Dot(kb), Dot(kab), Idx(<<AiI(IxN(0))>>)} : Out(Sel(<<Root, BrW, f, s>>, doc, NoArg))
  \/ \E f \in {FilterSt(c1), FilterSt(c2)}, g \in {FilterSt(c3), FilterSt(EExists(<<Cur, Dot(kb)>>))} : Out(Sel(<<Root, BrW, f, g>>, doc, NoArg))
  \* filter, navigation, filter: the first item the earlier filter keeps may be dropped later on
  \/ \E f \in {FilterSt(c1), FilterSt(c2), FilterSt(EExists(<<Cur, Dot(ka)>>))}, s \in {Dot(kb), Dot(ka)},
        g \in {FilterSt(EBin("eq", EPaths(<<Cur>>), EVal(PStr(sab.s)))), FilterSt(EBin("gt", EPaths(<<Cur>>), EVal(PNum(u1))))} :
        Out(Sel(<<Root, BrW, f, s, g>>, doc, NoArg))
EmitPred ==
  \/ \E e \in {EBin(op, EPaths(l), EVal(v)) : op \in {"eq", "gt", "ne"}, l \in {<<Root>>, <<Root, Dot(ka)>>, <<Root, BrW, Dot(ka)>>, <<Root, BrW>>},
                                              v \in {PNum(u1), PStr(sab.s), PNull}}
                \cup {EExists(<<Root, Dot(ka)>>), EExists(<<Root, BrW, FilterSt(c1)>>), EBin("and", EExists(<<Root, Dot(ka)>>), EExists(<<Root, Dot(kb)>>))} :
        Out(Sel(<<Pred(e)>>, doc, NoArg))
EmitErr ==
  \/ \E e \in Arith : Out(Sel(<<Root, FilterSt(e)>>, doc, NoArg)) \/ Out(Sel(<<Root, BrW, FilterSt(e)>>, doc, NoArg)) \/ Out(Sel(<<Pred(e)>>, doc, NoArg))
  \/ \E l \in ExtremeIndices : Out(Sel(<<Root, Idx(l)>>, doc, NoArg))
\* C17: the same selections into buffers that already hold earlier results
EmitPre ==
  \E ss \in {<<BrW>>, <<Dot(ka)>>, <<BrW, FilterSt(c1)>>, <<Idx(<<AiS(IxN(0), IxL(0))>>)>>, <<DotW>>, <<>>} :
     \/ Out(Sel(<<Root>> \o ss, doc, [pre |-> <<32, 0, 0, 0, 64, 0, 0, 0>>, preoffs |-> <<8>>]))
     \/ Out(Sel(<<Root>> \o ss, doc, [pre |-> <<9, 9, 9>>, preoffs |-> <<>>]))
     \* an earlier selection (one offset) followed by an earlier predicate result (no offset)
     \/ Out(Sel(<<Root>> \o ss, doc, [pre |-> <<32, 0, 0, 0, 0, 0, 0, 0, 32, 0, 0, 0, 64, 0, 0, 0>>, preoffs |-> <<8>>]))
     \/ Out(Sel(<<Pred(EExists(<<Root>> \o ss))>>, doc, [pre |-> <<9, 9, 9>>, preoffs |-> <<3>>]))
     \* a predicate result into a buffer whose earlier bytes no offset covers
     \/ Out(Sel(<<Pred(EExists(<<Root>> \o ss))>>, doc, [pre |-> <<9, 9, 9>>, preoffs |-> <<>>]))
     \/ Out(Sel(<<Pred(EExists(<<Root>> \o ss))>>, doc, [pre |-> <<32, 0, 0, 0, 0, 0, 0, 0, 32, 0, 0, 0, 64, 0, 0, 0>>, preoffs |-> <<8>>]))

\* the same selections with the document given as JSON text (the convenience functions accept it)
TextSel(s) == [rp |-> <<IF s.a.path = <<Root>> THEN 3 ELSE 1>>, fl |-> FL] @@ s
EmitText0 ==
  \/ \E ss \in UNION {[1..k -> NavSteps] : k \in 0..1} : Out(TextSel(Sel(<<Root>> \o ss, doc, NoArg)))
  \/ \E ss \in {<<BrW, BrW>>, <<BrW, Dot(ka)>>, <<BrW, FilterSt(c1)>>, <<FilterSt(c2)>>, <<DotW, BrW>>} : Out(TextSel(Sel(<<Root>> \o ss, doc, NoArg)))
  \/ \E e \in {EExists(<<Root, BrW>>), EBin("gt", EPaths(<<Root, BrW>>), EVal(PNum(u1)))} : Out(TextSel(Sel(<<Pred(e)>>, doc, NoArg)))
EmitText == ~HasNonFinite(doc) /\ EmitText0

\* the path handed over as text written by the specification's renderer: the parser is part of what is
\* evaluated ("for every path the parser accepts")
PlainSt == [ws |-> 0, kw |-> 0, quote |-> FALSE]
\* (a signed non-negative integer literal has no spelling: the text "1" denotes the unsigned 1)
RECURSIVE WrExpr(_), WrSteps(_)
WrExpr(e) == CASE e.e = "val" -> ~(e.v.v = "num" /\ e.v.r = "i" /\ e.v.b[1] < 128)
               [] e.e = "bin" -> WrExpr(e.l) /\ WrExpr(e.r)
               [] e.e \in {"paths", "exists"} -> WrSteps(e.ps)
               [] OTHER -> TRUE
\* (nor has last - 2147483648: the magnitude is not an i32)
WrIx(ix) == ~(ix.t = "l" /\ ix.v = IntMin)
WrAi(ai) == IF ai.x = "i" THEN WrIx(ai.i) ELSE WrIx(ai.s) /\ WrIx(ai.e)
WrSteps(ps) == \A i \in 1..Len(ps) : /\ (ps[i].p \in {"filter", "pred"} => WrExpr(ps[i].e))
                                       /\ (ps[i].p = "idx" => \A j \in 1..Len(ps[i].ix) : WrAi(ps[i].ix[j]))
OutT(ps) == WrSteps(ps) /\ Out(Sel(ps, doc, [ptext |-> PathTextOf(ps, PlainSt, FL)]))
EmitViaText ==
  \/ \E ss \in UNION {[1..k -> NavSteps] : k \in 0..1} : OutT(<<Root>> \o ss)
  \/ \E f \in FilterSteps : OutT(<<Root, f>>) \/ OutT(<<Root, BrW, f>>)
  \/ \E s \in {Idx(l) : l \in Indices}, t \in {BrW, Dot(ka)} : OutT(<<Root, t, s>>)
  \/ \E e \in {EExists(<<Root, Dot(ka)>>), EBin("gt", EPaths(<<Root, BrW>>), EVal(PNum(u1))), EBin("and", EExists(<<Root, Dot(ka)>>), EExists(<<Root, Dot(kb)>>))} : OutT(<<Pred(e)>>)

Emit ==
  /\ stage = "doc"
  /\ CASE Family = "nav" -> EmitNav
       [] Family = "filter" -> EmitFilter
       [] Family = "pred" -> EmitPred
       [] Family = "err" -> EmitErr
       [] Family = "pre" -> EmitPre
       [] Family = "text" -> EmitText
       [] Family = "viatext" -> EmitViaText
       [] OTHER -> FALSE
Next == Pick \/ Emit
Spec == Init /\ [][Next]_vars

\* laws of the specification: composition, and consistency of the modes
GenInv ==
  stage = "script" =>
    LET ps == scr.a.path
        root == scr.d[1]
        s == Select(ps, root)
    IN ~s.ok \/
       (/\ \A i \in 1..Len(s.v) : IsDoc(s.v[i])
        /\ ModeItems("first", s.v) = (IF Len(s.v) = 0 THEN <<>> ELSE <<ModeItems("all", s.v)[1]>>)
        /\ ModeItems("array", s.v) = <<Arr(ModeItems("all", s.v))>>
        /\ ModeItems("mixed", s.v) = (IF Len(s.v) >= 2 THEN ModeItems("array", s.v) ELSE ModeItems("all", s.v))
        \* a path is evaluated step by step: selecting with ps and then with one more navigation step
        \* equals selecting with the extended path
        /\ (~IsPredicate(ps) =>
              LET ext == EvalFrom(<<BrW>>, 1, Eval(ps, root, RootItem(root)).v, root)
              IN Eval(ps \o <<BrW>>, root, RootItem(root)) = ext))
=============================================================================
