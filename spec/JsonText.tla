------------------------------ MODULE JsonText -----------------------------
(***************************************************************************)
(* JSON text.                                                              *)
(*  - Parse(s, strict): RFC 8259 recogniser and evaluator (strict = TRUE), *)
(*    and the documented superset the crate's parser accepts (strict =     *)
(*    FALSE): raw control characters in strings, \u{XXXX} escapes, lone    *)
(*    surrogate escapes kept as literal text, form feed and backslash-     *)
(*    escaped white space between tokens.  Integers that fit u64 / i64 are *)
(*    exact; every other number is kept as its lexeme and judged against   *)
(*    the implementation's bits with BigNat!IsRN.                          *)
(*  - RenderText: the renderer the harness uses to build text arguments.   *)
(*  - the relation between a rendering and the document it must denote.    *)
(***************************************************************************)
EXTENDS Jsonb, BigNat

PErr == [ok |-> FALSE]
POk(v, i) == [ok |-> TRUE, v |-> v, i |-> i]
At(s, i) == IF i >= 1 /\ i <= Len(s) THEN s[i] ELSE -1

IsDigitB(b) == b >= 48 /\ b <= 57
HexVal(b) == IF b >= 48 /\ b <= 57 THEN b - 48
             ELSE IF b >= 65 /\ b <= 70 THEN b - 55
             ELSE IF b >= 97 /\ b <= 102 THEN b - 87 ELSE -1
\* value of four hex digits at s[i..i+3], or -1
Hex4(s, i) ==
  IF i + 3 > Len(s) THEN -1
  ELSE LET a == HexVal(s[i]) b == HexVal(s[i + 1]) c == HexVal(s[i + 2]) d == HexVal(s[i + 3])
       IN IF a < 0 \/ b < 0 \/ c < 0 \/ d < 0 THEN -1 ELSE (a * 4096) + (b * 256) + (c * 16) + d

----------------------------------------------------------------------------
(* white space between tokens *)
RECURSIVE SkipWs(_, _, _)
SkipWs(s, i, strict) ==
  LET c == At(s, i)
  IN IF c \in {32, 9, 10, 13} THEN SkipWs(s, i + 1, strict)
     ELSE IF strict THEN i
     ELSE IF c = 12 THEN SkipWs(s, i + 1, strict)
     ELSE IF c = 92 /\ At(s, i + 1) \in {110, 114, 116} THEN SkipWs(s, i + 2, strict)
     ELSE IF c = 92 /\ At(s, i + 1) = 120 /\ At(s, i + 2) = 48 /\ At(s, i + 3) = 67 THEN SkipWs(s, i + 4, strict)
     ELSE i

----------------------------------------------------------------------------
(* numbers *)
RECURSIVE DigitsEnd(_, _)
DigitsEnd(s, i) == IF IsDigitB(At(s, i)) THEN DigitsEnd(s, i + 1) ELSE i

\* end (exclusive) of the RFC number lexeme starting at i, with its classification; 0 if malformed
NumLex(s, i) ==
  LET neg == At(s, i) = 45
      i1 == IF neg THEN i + 1 ELSE i
      i2 == IF At(s, i1) = 48 THEN i1 + 1 ELSE DigitsEnd(s, i1)
      intOk == i2 > i1 /\ ~(At(s, i1) = 48 /\ IsDigitB(At(s, i1 + 1)))
      hasFrac == At(s, i2) = 46
      i3 == IF hasFrac THEN DigitsEnd(s, i2 + 1) ELSE i2
      fracOk == ~hasFrac \/ i3 > i2 + 1
      hasExp == At(s, i3) \in {69, 101}
      i4 == IF hasExp THEN (IF At(s, i3 + 1) \in {43, 45} THEN i3 + 2 ELSE i3 + 1) ELSE i3
      i5 == IF hasExp THEN DigitsEnd(s, i4) ELSE i3
      expOk == ~hasExp \/ i5 > i4
  IN IF intOk /\ fracOk /\ expOk
     THEN [end |-> i5, neg |-> neg, int |-> Sub(s, i1, i2 - 1), frac |-> IF hasFrac THEN Sub(s, i2 + 1, i3 - 1) ELSE <<>>,
           hasFrac |-> hasFrac, hasExp |-> hasExp, eneg |-> hasExp /\ At(s, i3 + 1) = 45, exp |-> IF hasExp THEN Sub(s, i4, i5 - 1) ELSE <<>>]
     ELSE [end |-> 0]

ToDigits(bs) == [i \in 1..Len(bs) |-> bs[i] - 48]
\* small exponent value, saturated
RECURSIVE ExpVal(_, _)
ExpVal(ds, acc) == IF ds = <<>> THEN acc ELSE IF acc > 100000 THEN acc ELSE ExpVal(Tail(ds), (acc * 10) + Head(ds))

\* the decimal a lexeme denotes: (-1)^neg * ds * 10^e10
LexDec(nl) ==
  LET all == StripLeadingZeros(ToDigits(nl.int \o nl.frac))
      ev == ExpVal(StripLeadingZeros(ToDigits(nl.exp)), 0)
  IN [neg |-> nl.neg, ds |-> all, e10 |-> (IF nl.eneg THEN 0 - ev ELSE ev) - Len(nl.frac)]

\* a symbolic (not yet rounded) number
LexNum(s, i, nl) == [k |-> "num", r |-> "lex", lx |-> Sub(s, i, nl.end - 1)]

\* the document value of a number lexeme: exact integer when it is one and fits, else symbolic
NumValue(s, i, nl) ==
  IF ~nl.hasFrac /\ ~nl.hasExp
  THEN LET n == LexemeInt(nl.neg, ToDigits(nl.int))
       IN IF n # <<>> THEN NumD(n[1]) ELSE LexNum(s, i, nl)
  ELSE LexNum(s, i, nl)

\* do these bits correctly round this lexeme?  "unknown" when the check is out of reach
RNVerdict(lx, bits) ==
  LET nl == NumLex(lx, 1)
      dec == LexDec(nl)
      p == Len(dec.ds) + dec.e10
  IN IF nl.end # Len(lx) + 1 THEN "no"
     ELSE IF dec.ds = <<>> THEN (IF FIsZero(bits) /\ FSign(bits) = (IF dec.neg THEN 1 ELSE 0) THEN "yes" ELSE "no")
     ELSE IF p > 320 THEN (IF FIsInf(bits) /\ FSign(bits) = (IF dec.neg THEN 1 ELSE 0) THEN "yes" ELSE "no")
     ELSE IF p < -340 THEN (IF FIsZero(bits) /\ FSign(bits) = (IF dec.neg THEN 1 ELSE 0) THEN "yes" ELSE "no")
     ELSE IF ~RNFeasible(dec) THEN "unknown"
     ELSE IF IsRN(dec, bits) THEN "yes" ELSE "no"

----------------------------------------------------------------------------
(* strings *)
LitEscape(s, i) == <<92, 117>> \o Sub(s, i, i + 3)      \* \uXXXX as written

\* one \u escape body starting after "\u" at i: <<value, next index>> or <<-1>>; brace form if allowed
UEscape(s, i, strict) ==
  IF At(s, i) = 123 /\ ~strict
  THEN (IF Hex4(s, i + 1) >= 0 /\ At(s, i + 5) = 125 THEN <<Hex4(s, i + 1), i + 6, i + 1>> ELSE <<-1>>)
  ELSE (IF Hex4(s, i) >= 0 THEN <<Hex4(s, i), i + 4, i>> ELSE <<-1>>)

RECURSIVE PStr(_, _, _, _)
\* s[i] is the first byte after the opening quote
PStr(s, i, acc, strict) ==
  LET c == At(s, i)
  IN IF c = -1 THEN PErr
     ELSE IF c = 34 THEN (IF WellFormed(acc) THEN POk(acc, i + 1) ELSE PErr)
     ELSE IF c # 92 THEN (IF strict /\ c < 32 THEN PErr ELSE PStr(s, i + 1, Append(acc, c), strict))
     ELSE
       LET e == At(s, i + 1)
       IN CASE e = 34 -> PStr(s, i + 2, Append(acc, 34), strict)
            [] e = 92 -> PStr(s, i + 2, Append(acc, 92), strict)
            [] e = 47 -> PStr(s, i + 2, Append(acc, 47), strict)
            [] e = 98 -> PStr(s, i + 2, Append(acc, 8), strict)
            [] e = 102 -> PStr(s, i + 2, Append(acc, 12), strict)
            [] e = 110 -> PStr(s, i + 2, Append(acc, 10), strict)
            [] e = 114 -> PStr(s, i + 2, Append(acc, 13), strict)
            [] e = 116 -> PStr(s, i + 2, Append(acc, 9), strict)
            [] e = 117 ->
                 LET u == UEscape(s, i + 2, strict)
                 IN IF u[1] < 0 THEN PErr
                    ELSE IF IsLowSurrogate(u[1])
                         THEN (IF strict THEN PErr ELSE PStr(s, u[2], acc \o LitEscape(s, u[3]), strict))
                    ELSE IF IsHighSurrogate(u[1])
                         THEN IF At(s, u[2]) = 92 /\ At(s, u[2] + 1) = 117
                              THEN LET v == UEscape(s, u[2] + 2, strict)
                                   IN IF v[1] < 0 THEN PErr
                                      ELSE IF IsLowSurrogate(v[1])
                                           THEN PStr(s, v[2], acc \o EncodeCp(Combine(u[1], v[1])), strict)
                                      ELSE IF strict THEN PErr
                                      ELSE PStr(s, v[2], (acc \o LitEscape(s, u[3])) \o LitEscape(s, v[3]), strict)
                              ELSE (IF strict THEN PErr ELSE PStr(s, u[2], acc \o LitEscape(s, u[3]), strict))
                    ELSE PStr(s, u[2], acc \o EncodeCp(u[1]), strict)
            [] OTHER -> PErr

----------------------------------------------------------------------------
(* values *)
Lit(s, i, word) == i + Len(word) - 1 <= Len(s) /\ Tup(Sub(s, i, i + Len(word) - 1)) = word
WNull == <<110, 117, 108, 108>>   WTrue == <<116, 114, 117, 101>>   WFalse == <<102, 97, 108, 115, 101>>

RECURSIVE PVal(_, _, _), PArr(_, _, _, _, _), PObj(_, _, _, _, _)
PVal(s, i0, strict) ==
  LET i == SkipWs(s, i0, strict)
      c == At(s, i)
  IN CASE c = 110 -> IF Lit(s, i, WNull) THEN POk(Null, i + 4) ELSE PErr
       [] c = 116 -> IF Lit(s, i, WTrue) THEN POk(True, i + 4) ELSE PErr
       [] c = 102 -> IF Lit(s, i, WFalse) THEN POk(False, i + 5) ELSE PErr
       [] c = 34 -> LET r == PStr(s, i + 1, <<>>, strict) IN IF r.ok THEN POk(Str(r.v), r.i) ELSE PErr
       [] c = 45 \/ IsDigitB(c) -> LET nl == NumLex(s, i) IN IF nl.end = 0 THEN PErr ELSE POk(NumValue(s, i, nl), nl.end)
       [] c = 91 -> PArr(s, i + 1, <<>>, TRUE, strict)
       [] c = 123 -> PObj(s, i + 1, <<>>, TRUE, strict)
       [] OTHER -> PErr

\* after '[' or after an element
PArr(s, i0, acc, first, strict) ==
  LET i == SkipWs(s, i0, strict)
      c == At(s, i)
  IN IF c = 93 THEN POk(Arr(acc), i + 1)
     ELSE IF ~first /\ c # 44 THEN PErr
     ELSE LET r == PVal(s, IF first THEN i ELSE i + 1, strict)
          IN IF ~r.ok THEN PErr ELSE PArr(s, r.i, Append(acc, r.v), FALSE, strict)

PObj(s, i0, acc, first, strict) ==
  LET i == SkipWs(s, i0, strict)
      c == At(s, i)
  IN IF c = 125 THEN POk(Obj(acc), i + 1)
     ELSE IF ~first /\ c # 44 THEN PErr
     ELSE LET j == SkipWs(s, IF first THEN i ELSE i + 1, strict)
          IN IF At(s, j) # 34 THEN PErr
             ELSE LET kr == PStr(s, j + 1, <<>>, strict)
                  IN IF ~kr.ok THEN PErr
                     ELSE LET m == SkipWs(s, kr.i, strict)
                          IN IF At(s, m) # 58 THEN PErr
                             ELSE LET vr == PVal(s, m + 1, strict)
                                  IN IF ~vr.ok THEN PErr
                                     ELSE PObj(s, vr.i, PutMember(acc, kr.v, vr.v), FALSE, strict)

\* a complete text: one value, optional white space, nothing else.  Err or the document.
Parse(s, strict) ==
  LET r == PVal(s, 1, strict)
  IN IF ~r.ok THEN Err
     ELSE IF SkipWs(s, r.i, strict) = Len(s) + 1 THEN r.v ELSE Err

\* RFC 8259 forbids a trailing comma etc. by construction; strict also forbids a leading
\* escaped-whitespace form because SkipWs(strict) does not take it.

----------------------------------------------------------------------------
(* matching a specification value that may hold symbolic numbers against a concrete one *)
RECURSIVE Matches(_, _)
\* "yes", "no" or "unknown"
And3(a, b) == IF a = "no" \/ b = "no" THEN "no" ELSE IF a = "unknown" \/ b = "unknown" THEN "unknown" ELSE "yes"
RECURSIVE AllMatch(_, _, _)
AllMatch(xs, ys, i) == IF i > Len(xs) THEN "yes" ELSE And3(Matches(xs[i], ys[i]), AllMatch(xs, ys, i + 1))
Matches(spec, got) ==
  IF spec.k # got.k THEN "no"
  ELSE CASE spec.k = "num" ->
              IF spec.r = "lex" THEN (IF got.r = "f" THEN RNVerdict(spec.lx, BytesToBits(got.b)) ELSE "no")
              ELSE IF spec.r = got.r /\ spec.b = got.b THEN "yes" ELSE "no"
         [] spec.k = "str" -> IF Tup(spec.s) = Tup(got.s) THEN "yes" ELSE "no"
         [] spec.k = "arr" -> IF Len(spec.a) # Len(got.a) THEN "no" ELSE AllMatch(spec.a, got.a, 1)
         [] spec.k = "obj" ->
              IF Len(spec.o) # Len(got.o) \/ \E i \in 1..Len(spec.o) : Tup(spec.o[i][1]) # Tup(got.o[i][1]) THEN "no"
              ELSE AllMatch(ValsOf(spec), ValsOf(got), 1)
         [] OTHER -> "yes"

----------------------------------------------------------------------------
(* the harness' text renderer (tree.rs render_text), used for text arguments *)
HexDigit(v, upper) == IF v < 10 THEN 48 + v ELSE (IF upper THEN 55 ELSE 87) + v
HexEsc(u, upper) == <<92, 117, HexDigit(u \div 4096, upper), HexDigit((u \div 256) % 16, upper),
                      HexDigit((u \div 16) % 16, upper), HexDigit(u % 16, upper)>>
EscCp(c, esc) ==
  IF esc = 0
  THEN (IF c = 34 THEN <<92, 34>> ELSE IF c = 92 THEN <<92, 92>> ELSE IF c < 32 THEN HexEsc(c, TRUE) ELSE EncodeCp(c))
  ELSE CASE c = 34 -> <<92, 34>> [] c = 92 -> <<92, 92>> [] c = 47 -> <<92, 47>> [] c = 8 -> <<92, 98>>
         [] c = 12 -> <<92, 102>> [] c = 10 -> <<92, 110>> [] c = 13 -> <<92, 114>> [] c = 9 -> <<92, 116>>
         [] c < 32 \/ c = 127 -> HexEsc(c, FALSE)
         [] c < 128 -> <<c>>
         [] c < 65536 -> HexEsc(c, FALSE)
         [] OTHER -> HexEsc(55296 + ((c - 65536) \div 1024), FALSE) \o HexEsc(56320 + ((c - 65536) % 1024), FALSE)
StrToken(s, esc) == LET cps == CodePoints(s) IN <<34>> \o Flat([i \in 1..Len(cps) |-> EscCp(cps[i], esc)]) \o <<34>>

FloatLexeme(fl, b) == LET S == {i \in 1..Len(fl) : Tup(fl[i][1]) = Tup(b)} IN fl[CHOOSE i \in S : TRUE][2]
HasLexeme(fl, b) == \E i \in 1..Len(fl) : Tup(fl[i][1]) = Tup(b)

RECURSIVE Tokens(_, _, _)
Tokens(d, esc, fl) ==
  CASE d.k = "null" -> <<WNull>> [] d.k = "true" -> <<WTrue>> [] d.k = "false" -> <<WFalse>>
    [] d.k = "num" -> IF d.r = "f" THEN <<FloatLexeme(fl, d.b)>> ELSE <<IntText(NumOf(d))>>
    [] d.k = "str" -> <<StrToken(d.s, esc)>>
    [] d.k = "arr" -> <<<<91>>>> \o Flat([i \in 1..Len(d.a) |-> (IF i > 1 THEN <<<<44>>>> ELSE <<>>) \o Tokens(d.a[i], esc, fl)]) \o <<<<93>>>>
    [] d.k = "obj" -> <<<<123>>>> \o Flat([i \in 1..Len(d.o) |->
                          ((IF i > 1 THEN <<<<44>>>> ELSE <<>>) \o <<StrToken(d.o[i][1], esc), <<58>>>>) \o Tokens(d.o[i][2], esc, fl)])
                      \o <<<<125>>>>

RECURSIVE JoinToks(_, _)
JoinToks(ts, sep) == IF Len(ts) = 0 THEN <<>> ELSE IF Len(ts) = 1 THEN ts[1] ELSE (ts[1] \o sep) \o JoinToks(Tail(ts), sep)

RenderText(d, sp, fl) ==
  CASE sp = 0 -> JoinToks(Tokens(d, 0, fl), <<>>)
    [] sp = 1 -> (<<10>> \o JoinToks(Tokens(d, 0, fl), <<32>>)) \o <<10>>
    [] OTHER -> (<<9>> \o JoinToks(Tokens(d, 1, fl), <<13, 10, 32>>)) \o <<32>>

\* every float of the document has a lexeme, and the lexeme rounds to exactly those bits
RECURSIVE FloatsOf(_)
FloatsOf(d) ==
  CASE d.k = "num" -> IF d.r = "f" THEN {d.b} ELSE {}
    [] d.k = "arr" -> UNION {FloatsOf(d.a[i]) : i \in 1..Len(d.a)}
    [] d.k = "obj" -> UNION {FloatsOf(d.o[i][2]) : i \in 1..Len(d.o)}
    [] OTHER -> {}
LexemesOk(d, fl) == \A b \in FloatsOf(d) : HasLexeme(fl, b) /\ RNVerdict(FloatLexeme(fl, b), BytesToBits(b)) = "yes"

----------------------------------------------------------------------------
(* C03: what a rendering must satisfy.  No byte-exact renderer is imposed. *)
\* the number a specification value denotes equals the document's number
RECURSIVE Denotes(_, _)
RECURSIVE AllDenote(_, _, _)
AllDenote(xs, ys, i) == IF i > Len(xs) THEN "yes" ELSE And3(Denotes(xs[i], ys[i]), AllDenote(xs, ys, i + 1))
Denotes(parsed, d) ==
  IF parsed.k # d.k THEN "no"
  ELSE CASE parsed.k = "num" ->
              IF parsed.r = "lex" THEN (IF d.r = "f" THEN RNVerdict(parsed.lx, BytesToBits(d.b)) ELSE "no")
              ELSE IF d.r # "f" /\ NumCmp(NumOf(parsed), NumOf(d)) = 0 THEN "yes" ELSE "no"
         [] parsed.k = "str" -> IF Tup(parsed.s) = Tup(d.s) THEN "yes" ELSE "no"
         [] parsed.k = "arr" -> IF Len(parsed.a) # Len(d.a) THEN "no" ELSE AllDenote(parsed.a, d.a, 1)
         [] parsed.k = "obj" ->
              IF Len(parsed.o) # Len(d.o) \/ \E i \in 1..Len(d.o) : Tup(parsed.o[i][1]) # Tup(d.o[i][1]) THEN "no"
              ELSE AllDenote(ValsOf(parsed), ValsOf(d), 1)
         [] OTHER -> "yes"

\* the document with every non-negative signed integer stored unsigned (what the text parser yields)
RECURSIVE ToUnsigned(_)
ToUnsigned(d) ==
  CASE d.k = "num" -> IF d.r = "i" /\ d.b[1] < 128 THEN NumD(N("u", d.b)) ELSE d
    [] d.k = "arr" -> Arr([i \in 1..Len(d.a) |-> ToUnsigned(d.a[i])])
    [] d.k = "obj" -> Obj([i \in 1..Len(d.o) |-> <<d.o[i][1], ToUnsigned(d.o[i][2])>>])
    [] OTHER -> d

\* split a compact rendering into tokens (strings kept as written)
RECURSIVE StrEnd(_, _)
\* index of the closing quote of the string whose first content byte is s[i]; 0 if unterminated
StrEnd(s, i) ==
  IF i > Len(s) THEN 0
  ELSE IF s[i] = 34 THEN i
  ELSE IF s[i] = 92 THEN StrEnd(s, i + 2)
  ELSE StrEnd(s, i + 1)
RECURSIVE WordEnd(_, _)
WordEnd(s, i) == IF i > Len(s) \/ s[i] \in {44, 58, 91, 93, 123, 125, 32, 10, 13, 9, 34} THEN i ELSE WordEnd(s, i + 1)
RECURSIVE TokenizeFrom(_, _, _)
TokenizeFrom(s, i, acc) ==
  IF i > Len(s) THEN acc
  ELSE LET c == s[i]
       IN IF c \in {32, 10, 13, 9} THEN TokenizeFrom(s, i + 1, acc)
          ELSE IF c \in {44, 58, 91, 93, 123, 125} THEN TokenizeFrom(s, i + 1, Append(acc, <<c>>))
          ELSE IF c = 34 THEN LET e == StrEnd(s, i + 1)
                              IN IF e = 0 THEN Append(acc, Sub(s, i, Len(s))) ELSE TokenizeFrom(s, e + 1, Append(acc, Sub(s, i, e)))
          ELSE LET e == WordEnd(s, i) IN TokenizeFrom(s, e, Append(acc, Sub(s, i, e - 1)))
Tokenize(s) == TokenizeFrom(s, 1, <<>>)

\* the pretty layout of a token sequence: two-space indentation, one member per line,
\* ": " after keys.  emptyInline chooses how an empty container is written.
Spaces(n) == Rep(32, n)
RECURSIVE LayoutFrom(_, _, _, _, _)
LayoutFrom(ts, i, depth, acc, emptyInline) ==
  IF i > Len(ts) THEN acc
  ELSE LET t == ts[i]
           nxt == IF i < Len(ts) THEN ts[i + 1] ELSE <<>>
           open == t = <<91>> \/ t = <<123>>
           close == t = <<93>> \/ t = <<125>>
       IN IF open
          THEN IF emptyInline /\ (nxt = <<93>> \/ nxt = <<125>>)
               THEN LayoutFrom(ts, i + 2, depth, (acc \o t) \o nxt, emptyInline)
               ELSE IF nxt = <<93>> \/ nxt = <<125>>
               THEN LayoutFrom(ts, i + 2, depth, ((((acc \o t) \o <<10>>) \o <<10>>) \o Spaces(2 * depth)) \o nxt, emptyInline)
               ELSE LayoutFrom(ts, i + 1, depth + 1, ((acc \o t) \o <<10>>) \o Spaces(2 * (depth + 1)), emptyInline)
          ELSE IF close THEN LayoutFrom(ts, i + 1, depth - 1, ((acc \o <<10>>) \o Spaces(2 * (depth - 1))) \o t, emptyInline)
          ELSE IF t = <<44>> THEN LayoutFrom(ts, i + 1, depth, ((acc \o t) \o <<10>>) \o Spaces(2 * depth), emptyInline)
          ELSE IF t = <<58>> THEN LayoutFrom(ts, i + 1, depth, (acc \o t) \o <<32>>, emptyInline)
          ELSE LayoutFrom(ts, i + 1, depth, acc \o t, emptyInline)
PrettyLayoutOk(compact, pretty) ==
  LET ts == Tokenize(compact)
  IN Tup(pretty) = Tup(LayoutFrom(ts, 1, 0, <<>>, TRUE)) \/ Tup(pretty) = Tup(LayoutFrom(ts, 1, 0, <<>>, FALSE))
=============================================================================
