------------------------------- MODULE Limits ------------------------------
(***************************************************************************)
(* Two small models behind C20.                                            *)
(*  (a) Index arithmetic.  The documented meaning of a negative index is   *)
(*      "count from the end": target = len + idx, in the integers.  The    *)
(*      implementation computes in W-bit two's complement.  On a scaled    *)
(*      copy (W bits, every len and idx) TLC shows which formulations stay *)
(*      inside the machine range: len + idx always does (len >= 0 > idx),  *)
(*      len - |idx| does not (|MIN| is not representable), and             *)
(*      last-relative positions len + v - 1 need one more bit.             *)
(*  (b) Recursion.  A routine that descends once per nesting level is a    *)
(*      counter machine; the only outcomes the specification allows are a  *)
(*      result or an error.  "The process died" is not an outcome of any   *)
(*      action, so a recorded death is rejected by the trace validator.    *)
(***************************************************************************)
EXTENDS Integers, TLC

CONSTANT W
MinW == 0 - (2 ^ (W - 1))
MaxW == (2 ^ (W - 1)) - 1
Fits(x) == x >= MinW /\ x <= MaxW
Lens == 0..MaxW
Idxs == MinW..MaxW

\* count-from-the-end, the formulation that is safe at every width
SafeForm == \A len \in Lens, idx \in Idxs : idx < 0 => Fits(len + idx)
\* the formulation through the absolute value is not: it leaves the range exactly at MIN
AbsForm == \A len \in Lens, idx \in Idxs : idx < 0 => (Fits(0 - idx) <=> idx # MinW)
\* last-relative positions: len + v - 1 leaves the W-bit range for large v, fits W+1 bits always
LastForm == /\ \E len \in Lens, v \in Idxs : ~Fits((len + v) - 1)
            /\ \A len \in Lens, v \in Idxs : (len + v) - 1 >= 2 * MinW /\ (len + v) - 1 <= (2 * MaxW) + 1
\* clamping an insertion position: the result is always a valid position
ClampOk == \A len \in Lens, pos \in Idxs :
              LET raw == IF pos < 0 THEN len + pos ELSE pos
                  idx == IF raw < 0 THEN 0 ELSE IF raw > len THEN len ELSE raw
              IN idx >= 0 /\ idx <= len
ASSUME SafeForm /\ AbsForm /\ LastForm /\ ClampOk

\* (b) the recursion counter machine
VARIABLES remaining, outcome
Init == remaining \in 0..8 /\ outcome = "running"
Descend == outcome = "running" /\ remaining > 0 /\ remaining' = remaining - 1 /\ UNCHANGED outcome
Finish == outcome = "running" /\ remaining = 0 /\ outcome' \in {"ok", "err"} /\ UNCHANGED remaining
GiveUp == outcome = "running" /\ outcome' = "err" /\ UNCHANGED remaining      \* a depth limit is allowed
Next == Descend \/ Finish \/ GiveUp
Spec == Init /\ [][Next]_<<remaining, outcome>>
OutcomeOk == outcome \in {"running", "ok", "err"}
=============================================================================
