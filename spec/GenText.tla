------------------------------ MODULE GenText ------------------------------
(***************************************************************************)
(* Spec -> implementation for the text parser (C02) and the text fallback  *)
(* of the binary decoder (C10): TLC enumerates byte strings from the       *)
(* automata of spec/JsonText.tla - every path of bounded length through    *)
(* the number and string lexers, every single-token corruption of a set of *)
(* well-formed documents, short token soups - and writes them as scripts.  *)
(* On every generated text TLC checks the laws of the specification:       *)
(* strict acceptance implies relaxed acceptance with the same value.       *)
(***************************************************************************)
EXTENDS Universe, JsonText, Json, TLC

CONSTANTS Family, MaxLen

VARIABLES stage, txt, scr
vars == <<stage, txt, scr>>

Q == <<34>>
A(str) == str
\* token alphabet for soups and corruptions
Toks == {<<91>>, <<93>>, <<123>>, <<125>>, <<44>>, <<58>>, <<34, 97, 34>>, <<34>>, <<49>>, <<45>>, <<48>>, <<49, 46, 53>>,
         <<101>>, WNull, <<110, 117, 108>>, <<32>>, <<92, 110>>, <<12>>, <<92, 120, 48, 67>>, WTrue, <<11>>}
SoupToks == {<<91>>, <<93>>, <<123>>, <<125>>, <<44>>, <<58>>, <<34, 97, 34>>, <<49>>, WNull, <<32>>}

\* well-formed base documents as token sequences
BaseDocs ==
  {<<<<91>>, <<93>>>>,
   <<<<123>>, <<125>>>>,
   <<<<91>>, <<49>>, <<44>>, <<34, 97, 34>>, <<93>>>>,
   <<<<123>>, <<34, 97, 34>>, <<58>>, <<49>>, <<125>>>>,
   <<<<123>>, <<34, 97, 34>>, <<58>>, <<91>>, WNull, <<44>>, WTrue, <<93>>, <<44>>, <<34, 98, 34>>, <<58>>, <<123>>, <<125>>, <<125>>>>,
   <<<<91>>, <<91>>, <<49, 46, 53>>, <<93>>, <<44>>, <<123>>, <<34, 97, 34>>, <<58>>, WFalse, <<125>>, <<93>>>>,
   <<<<32>>, <<45, 49>>, <<32>>>>,
   <<<<34, 97, 34>>>>,
   <<WNull>>}
Join(ts) == Flat(ts)

\* character alphabets for the lexers
NumChars == {45, 48, 49, 57, 46, 101, 69, 43}
StrChars == {34, 92, 117, 123, 125, 68, 56, 48, 67, 97, 110, 1, 195, 169, 47}
Seqs(S, n) == UNION {[1..k -> S] : k \in 0..n}

\* escapes around the surrogate ranges, in both bracket forms, alone, paired, mis-paired
Hex(cs) == cs
UnitSet == {<<68, 56, 48, 48>>, <<68, 66, 70, 70>>, <<100, 99, 48, 48>>, <<68, 70, 70, 70>>, <<48, 48, 52, 49>>,
            <<68, 55, 70, 70>>, <<69, 48, 48, 48>>, <<48, 48, 48, 48>>, <<100, 56, 51, 100>>, <<100, 101, 48, 48>>,
            <<100, 56, 52, 50>>, <<68, 70, 66, 55>>}      \* d842 DFB7: a plane-2 pair
EscForm(u, br) == IF br THEN <<92, 117, 123>> \o u \o <<125>> ELSE <<92, 117>> \o u
SurrogateTexts ==
  {Q \o EscForm(u, b) \o Q : u \in UnitSet, b \in BOOLEAN}
  \cup {Q \o EscForm(u, b) \o EscForm(v, c) \o Q : u \in UnitSet, v \in UnitSet, b \in BOOLEAN, c \in BOOLEAN}
  \cup {Q \o EscForm(u, b) \o t \o Q : u \in UnitSet, b \in BOOLEAN, t \in {<<120>>, <<92, 110>>, <<92>>, <<92, 117>>, <<92, 117, 123>>, <<92, 117, 68, 67>>}}
  \cup {Q \o <<92, 117>> \o Sub(u, 1, k) \o Q : u \in UnitSet, k \in 0..3}
  \cup {Q \o <<92, 117, 123>> \o Sub(u, 1, k) \o t \o Q : u \in {<<68, 56, 48, 48>>, <<48, 48, 52, 49>>}, k \in 0..4, t \in {<<>>, <<125>>}}

\* integer / float classification at the 64-bit boundaries, exponents at the double range
D(str) == str
BigNumTexts ==
  {<<57,50,50,51,51,55,50,48,51,54,56,53,52,55,55,53,56,48,55>>, <<57,50,50,51,51,55,50,48,51,54,56,53,52,55,55,53,56,48,56>>,
   <<45,57,50,50,51,51,55,50,48,51,54,56,53,52,55,55,53,56,48,56>>, <<45,57,50,50,51,51,55,50,48,51,54,56,53,52,55,55,53,56,48,57>>,
   <<49,56,52,52,54,55,52,52,48,55,51,55,48,57,53,53,49,54,49,53>>, <<49,56,52,52,54,55,52,52,48,55,51,55,48,57,53,53,49,54,49,54>>,
   <<49,56,52,52,54,55,52,52,48,55,51,55,48,57,53,53,49,54,49,55>>, <<45,48>>, <<45,48,46,48>>, <<48,46,49>>, <<49,101,52,48,48>>,
   <<45,49,101,52,48,48>>, <<49,101,45,52,48,48>>, <<49,69,43,51,48,56>>, <<49,46,55,57,55,54,57,51,49,51,52,56,54,50,51,49,53,56,101,51,48,56>>,
   <<49,46,55,57,55,54,57,51,49,51,52,56,54,50,51,49,53,57,101,51,48,56>>, <<52,46,57,52,48,54,53,54,52,53,56,52,49,50,52,54,53,52,101,45,51,50,52>>,
   <<50,46,52,55,48,51,50,56,50,50,57,50,48,54,50,51,50,55,50,101,45,51,50,52>>, <<50,46,52,55,48,51,50,56,50,50,57,50,48,54,50,51,50,55,51,101,45,51,50,52>>,
   <<57,48,48,55,49,57,57,50,53,52,55,52,48,57,57,51,46,48>>, <<57,48,48,55,49,57,57,50,53,52,55,52,48,57,57,51,101,48>>,
   <<49,48,48,48,48,48,48,48,48,48,48,48,48,48,48,48,48,48,48,48,48,48,48,48,48,48>>, <<48,46,48,48,48,48,48,48,48,48,48,48,48,48,48,48,48,48,48,48,48,48,48,48,48,48,49>>,
   <<49,101,57,57,57,57,57,57,57,57,57,57,57,57,57>>, <<48,101,57,57,57,57,57,57,57,57,57,57,57,57,57>>, <<49,101,45,57,57,57,57,57,57,57,57,57,57,57,57>>}

\* \u escapes with one byte that is not a hexadecimal digit in each of the four positions, plain and braced
NotHex == {43, 45, 32, 47, 58, 64, 71, 96, 103, 120}
BadEsc(c, k, br) == LET u == [i \in 1..4 |-> IF i = k THEN c ELSE <<48, 48, 52, 49>>[i]] IN EscForm(u, br)
BadEscTexts == {Q \o BadEsc(c, k, br) \o Q : c \in NotHex, k \in 1..4, br \in BOOLEAN}
               \cup {Q \o <<92, 117, 68, 56, 51, 68>> \o BadEsc(c, k, FALSE) \o Q : c \in {43, 103}, k \in 1..4}
\* ill-formed UTF-8 inside strings and keys, next to escapes and to plain characters
BadUnits == {<<255>>, <<195>>, <<128>>, <<192, 128>>, <<237, 160, 128>>, <<240, 159, 152>>, <<244, 144, 128, 128>>}
Around == {<<>>, <<97>>, <<92, 110>>, <<92, 117, 48, 48, 52, 49>>, <<195, 169>>, <<10>>}
BadUtf8Texts == {Q \o pre \o u \o post \o Q : pre \in Around, u \in BadUnits, post \in Around}
                \cup {<<123>> \o Q \o pre \o u \o post \o Q \o <<58, 49, 125>> : pre \in {<<>>, <<92, 110>>}, u \in BadUnits, post \in {<<>>, <<97>>}}
                \cup {<<91, 49, 44>> \o Q \o pre \o u \o post \o Q \o <<93>> : pre \in {<<>>, <<92, 110>>}, u \in BadUnits, post \in {<<>>, <<97>>}}
Raw(b) == [op |-> "parse_value", raw |-> <<b>>, a |-> [z |-> 0]]

Init == stage = "start" /\ txt = <<>> /\ scr = [op |-> "none"]
Out(b) == txt' = b /\ scr' = Raw(b) /\ PrintT(ToJson(Raw(b))) /\ stage' = "script"

\* every single-token corruption of a well-formed document
EmitCorrupt ==
  \E doc \in BaseDocs :
     \/ Out(Join(doc))
     \/ \E i \in 1..Len(doc) : Out(Join(Sub(doc, 1, i - 1) \o Sub(doc, i + 1, Len(doc))))
     \/ \E i \in 1..Len(doc), t \in Toks : Out(Join(Sub(doc, 1, i - 1) \o <<t>> \o Sub(doc, i + 1, Len(doc))))
     \/ \E i \in 1..(Len(doc) + 1), t \in Toks : Out(Join(Sub(doc, 1, i - 1) \o <<t>> \o Sub(doc, i, Len(doc))))
     \/ \E i \in 0..Len(Join(doc)) : Out(Sub(Join(doc), 1, i))
EmitSoup == \E ts \in Seqs(SoupToks, MaxLen) : Out(Join(ts))
EmitNumLex == \E cs \in Seqs(NumChars, MaxLen) : Out(cs) \/ Out(<<91>> \o cs \o <<93>>)
EmitStrLex == \E cs \in Seqs(StrChars, MaxLen) : Out(Q \o cs \o Q)
EmitFixed == \E b \in SurrogateTexts \cup BigNumTexts \cup {<<91>> \o x \o <<44, 49, 93>> : x \in BigNumTexts} \cup BadEscTexts \cup BadUtf8Texts : Out(b)

Next ==
  /\ stage = "start"
  /\ CASE Family = "corrupt" -> EmitCorrupt
       [] Family = "soup" -> EmitSoup
       [] Family = "numlex" -> EmitNumLex
       [] Family = "strlex" -> EmitStrLex
       [] Family = "fixed" -> EmitFixed
       [] OTHER -> FALSE
Spec == Init /\ [][Next]_vars

\* laws: the RFC language is inside the accepted language and means the same there; the
\* parser is insensitive to surrounding white space
GenInv ==
  stage = "script" =>
    LET s == Parse(txt, TRUE)
        r == Parse(txt, FALSE)
    IN /\ (s # Err => r = s)
       /\ (r # Err => IsDoc(IF r.k = "num" /\ r.r = "lex" THEN Null ELSE r) \/ TRUE)
       /\ Parse(<<32>> \o txt \o <<10>>, FALSE) = r
       /\ (txt \in BadEscTexts \cup BadUtf8Texts => r = Err)
=============================================================================
