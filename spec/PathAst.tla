------------------------------- MODULE PathAst ------------------------------
(***************************************************************************)
(* Constructors for JSONPath syntax trees and the bounded sets of steps,   *)
(* index forms, literals and filter expressions the generators draw from.  *)
(***************************************************************************)
EXTENDS Universe, Path

\* ---- documents
o1 == Obj(<< <<ka, u1>>, <<kb, sab>> >>)
o2 == Obj(<< <<ka, u2>>, <<kb, Null>> >>)
o3 == Obj(<< <<ka, f15>>, <<kab, True>> >>)
o5 == Obj(<< <<ka, u1>>, <<kb, Null>> >>)
o6 == Obj(<< <<ka, u2>>, <<kb, sab>> >>)
o4 == Obj(<< <<ka, Arr(<<u1, u2>>)>>, <<kb, Obj(<< <<ka, sa>> >>)>> >>)
PathDocs ==
  {Null, u1, sab, True, Arr(<<>>), Obj(<<>>), Arr(<<u1>>), Arr(<<u1, u2, u256>>), Arr(<<Null, True, False, sEmpty>>),
   Arr(<<sa, sab, sb>>), Arr(<<o1, o2, o3>>), Arr(<<o5, o2, o1, o6>>), Arr(<<u1, sab, u256, sa>>), Arr(<<finf, u0, fninf, fnan, umax, im1, imin>>), Arr(<<o1, u1, o4, Arr(<<u2, o2>>)>>), o1, o2, o4,
   Obj(<< <<ka, Arr(<<o1, o2>>)>>, <<kb, u2>> >>), Obj(<< <<ka, Obj(<< <<ka, Obj(<< <<ka, u1>> >>)>> >>)>> >>),
   Arr(<<Arr(<<u1, u2>>), Arr(<<>>), Arr(<<u256>>)>>), Obj(<< <<kEmpty, u1>>, <<kE, Arr(<<i1, f1, u1>>)>> >>),
   Arr(<<u2p53, u2p53p1, f2p53>>), Arr(<<im1, u0, fm0, f15>>),
   Arr(<<Arr(<<>>), Arr(<<u1, u2>>)>>), Arr(<<Obj(<<>>), o1, Arr(<<>>)>>), Obj(<< <<ka, Arr(<<>>)>>, <<kb, Arr(<<o2>>)>> >>)}

\* ---- syntax tree constructors
Root == [p |-> "root"]     Cur == [p |-> "cur"]      DotW == [p |-> "dotw"]    BrW == [p |-> "brw"]
Dot(n) == [p |-> "dot", n |-> n]   Colon(n) == [p |-> "colon", n |-> n]   ObjF(n) == [p |-> "objf", n |-> n]
IxN(v) == [t |-> "n", v |-> v]     IxL(v) == [t |-> "l", v |-> v]
AiI(i) == [x |-> "i", i |-> i]     AiS(s, e) == [x |-> "s", s |-> s, e |-> e]
Idx(l) == [p |-> "idx", ix |-> l]
FilterSt(e) == [p |-> "filter", e |-> e]    Pred(e) == [p |-> "pred", e |-> e]
EPaths(ps) == [e |-> "paths", ps |-> ps]  EVal(v) == [e |-> "val", v |-> v]
EBin(op, l, r) == [e |-> "bin", op |-> op, l |-> l, r |-> r]
EExists(ps) == [e |-> "exists", ps |-> ps]
PNull == [v |-> "null"]   PBool(b) == [v |-> "bool", b |-> b]   PNum(d) == [v |-> "num", r |-> d.r, b |-> d.b]
PStr(s) == [v |-> "str", s |-> s]

IntMax == 2147483647
IntMin == (0 - 2147483647) - 1
Indices ==
  {<<AiI(IxN(0))>>, <<AiI(IxN(1))>>, <<AiI(IxN(-1))>>, <<AiI(IxL(0))>>, <<AiI(IxL(-1))>>, <<AiI(IxL(1))>>,
   <<AiI(IxN(2)), AiI(IxN(0))>>, <<AiI(IxN(0)), AiI(IxN(0))>>, <<AiS(IxN(0), IxL(0))>>, <<AiS(IxN(1), IxL(-1))>>,
   <<AiS(IxL(-1), IxN(5))>>, <<AiS(IxN(2), IxN(1))>>, <<AiS(IxN(-2), IxN(1))>>, <<AiS(IxL(-1), IxL(0)), AiI(IxN(0))>>,
   <<AiI(IxN(0)), AiI(IxN(2)), AiI(IxN(1)), AiI(IxN(3))>>, <<AiI(IxN(0)), AiI(IxN(1)), AiI(IxN(1)), AiI(IxN(3))>>, <<AiS(IxN(1), IxN(2)), AiI(IxN(0)), AiI(IxL(0))>>,
   <<AiI(IxN(IntMax))>>, <<AiI(IxN(IntMin))>>, <<AiI(IxL(IntMin))>>, <<AiS(IxN(0), IxN(IntMax))>>, <<AiS(IxN(IntMin), IxL(0))>>}
\* forms whose resolution needs more than 32 bits: last + v - 1 with v near the ends of the range
ExtremeIndices == {<<AiI(IxL(IntMax))>>, <<AiS(IxL(IntMin), IxL(IntMax))>>, <<AiS(IxN(-1), IxN(IntMax))>>}

Lits == {PNull, PBool(1), PBool(0), PNum(u1), PNum(u2), PNum(f15), PNum(i1), PNum(im1), PStr(sab.s), PStr(sa.s), PStr(<<>>)}
CmpOps == {"eq", "ne", "lt", "le", "gt", "ge"}
LhsPaths == {<<Cur>>, <<Cur, Dot(ka)>>, <<Cur, Dot(kb)>>, <<Cur, BrW>>, <<Cur, Dot(ka), BrW>>, <<Root, Dot(kb)>>, <<Cur, DotW>>,
             <<Cur, Idx(<<AiI(IxL(0))>>)>>}
Cmps == {EBin(op, EPaths(l), EVal(v)) : op \in CmpOps, l \in {<<Cur>>, <<Cur, Dot(ka)>>}, v \in Lits}
        \cup {EBin(op, EPaths(l), EVal(v)) : op \in {"eq", "gt"}, l \in LhsPaths, v \in {PNum(u1), PStr(sab.s), PNull}}
        \cup {EBin(op, EVal(v), EPaths(l)) : op \in CmpOps, l \in {<<Cur>>, <<Cur, Dot(ka)>>}, v \in {PNum(u2), PNum(f15), PStr(sab.s)}}
        \cup {EBin(op, EPaths(<<Cur, Dot(ka)>>), EPaths(r)) : op \in {"eq", "lt"}, r \in {<<Cur, Dot(kb)>>, <<Root, Dot(kb)>>, <<Root, BrW, Dot(ka)>>}}
        \cup {EBin("eq", EVal(PNum(u1)), EVal(PNum(f1))), EBin("lt", EVal(PNull), EVal(PBool(0)))}
c1 == EBin("eq", EPaths(<<Cur, Dot(ka)>>), EVal(PNum(u1)))
c2 == EBin("gt", EPaths(<<Cur, Dot(ka)>>), EVal(PNum(u1)))
c3 == EBin("eq", EPaths(<<Cur, Dot(kb)>>), EVal(PStr(sab.s)))
Logic == {EBin("and", c1, c3), EBin("or", c1, c2), EBin("and", EBin("or", c1, c2), c3), EBin("or", c1, EBin("and", c2, c3)),
          EExists(<<Cur, Dot(ka)>>), EExists(<<Cur, Dot(kab)>>), EExists(<<Root, Dot(kb)>>), EExists(<<Cur, BrW, FilterSt(c1)>>),
          EBin("and", EExists(<<Cur, Dot(kb)>>), c2), EExists(<<Cur, Dot(ka), FilterSt(EBin("gt", EPaths(<<Cur, BrW>>), EVal(PNum(u1))))>>)}
Arith == {[e |-> "ar", op |-> "add", l |-> EPaths(<<Cur, Dot(ka)>>), r |-> EVal(PNum(u1))],
          [e |-> "un", op |-> "neg", x |-> EPaths(<<Cur, Dot(ka)>>)]}

NavSteps == {DotW, BrW, Dot(ka), Dot(kb), Colon(ka), ObjF(kE), Dot(kEmpty)} \cup {Idx(l) : l \in Indices}
FilterSteps == {FilterSt(e) : e \in Cmps \cup Logic}
Steps == NavSteps \cup FilterSteps
StepSeqs(n) == UNION {[1..k -> Steps] : k \in 0..n}

=============================================================================
