---------------------------- MODULE IndexProofs ----------------------------
(***************************************************************************)
(* Unbounded companions (TLAPS) of the index laws TLC checks on scaled      *)
(* copies in Limits.tla and of the saturating position arithmetic that     *)
(* Path.tla uses because TLC's integers are 32 bits wide.  The machine      *)
(* range is MinM..MaxM with MinM = -MaxM - 1 for an arbitrary MaxM >= 1.    *)
(***************************************************************************)
EXTENDS Integers, TLAPS

CONSTANT MaxM
ASSUME MaxMNat == MaxM \in Nat /\ MaxM >= 1
MinM == (0 - MaxM) - 1
Fits(x) == x >= MinM /\ x <= MaxM

\* count-from-the-end never leaves the machine range
THEOREM SafeForm == \A len \in 0..MaxM, idx \in MinM..MaxM : idx < 0 => Fits(len + idx)
  BY MaxMNat DEF MinM, Fits

\* negating an index is representable exactly when the index is not the minimum
THEOREM AbsForm == \A idx \in MinM..MaxM : idx < 0 => (Fits(0 - idx) <=> idx # MinM)
  BY MaxMNat DEF MinM, Fits

\* last-relative positions fit one more bit
THEOREM LastForm == \A len \in 0..MaxM, v \in MinM..MaxM :
                       (len + v) - 1 >= 2 * MinM /\ (len + v) - 1 <= (2 * MaxM) + 1
  BY MaxMNat DEF MinM

\* a clamped insertion position is a valid position
THEOREM ClampOk == \A len \in 0..MaxM, pos \in MinM..MaxM :
                      LET raw == IF pos < 0 THEN len + pos ELSE pos
                          idx == IF raw < 0 THEN 0 ELSE IF raw > len THEN len ELSE raw
                      IN idx \in 0..len
  BY MaxMNat DEF MinM

----------------------------------------------------------------------------
(* Path.tla!ClampPos: the saturated position (-1 = below, len = above)      *)
(* agrees with the exact integer position wherever that is in range, and    *)
(* classifies below / above correctly.  Index forms: "n" absolute,          *)
(* "l" last-relative (len - 1 + v).                                         *)
Exact(t, v, len) == IF t = "n" THEN v ELSE (len - 1) + v
ClampPos(t, v, len) ==
  IF t = "n"
  THEN (IF v < 0 THEN -1 ELSE IF v >= len THEN len ELSE v)
  ELSE (IF v > 0 THEN len ELSE IF v < 1 - len THEN -1 ELSE (len - 1) + v)

THEOREM ClampExact ==
  \A t \in {"n", "l"}, v \in Int, len \in Nat :
     LET e == Exact(t, v, len)
         c == ClampPos(t, v, len)
     IN /\ c \in -1..len
        /\ (e >= 0 /\ e < len) => c = e
        /\ e < 0 => c = -1
        /\ e >= len => c = len
  BY DEF Exact, ClampPos

\* every intermediate of ClampPos stays within the operands' magnitude: no overflow in TLC
THEOREM ClampNoOverflow ==
  \A v \in MinM..MaxM, len \in 0..MaxM :
     /\ Fits(1 - len)
     /\ (~(v > 0) /\ ~(v < 1 - len)) => Fits((len - 1) + v) /\ Fits(len - 1)
  BY MaxMNat DEF MinM, Fits

----------------------------------------------------------------------------
(* Range selection start..end over an array of length len: the positions    *)
(* chosen through the saturated bounds are exactly the in-range positions   *)
(* between the exact bounds.                                                *)
THEOREM RangeExact ==
  \A s \in Int, e \in Int, len \in Nat, p \in Int :
     LET cs == IF s < 0 THEN -1 ELSE IF s >= len THEN len ELSE s
         ce == IF e < 0 THEN -1 ELSE IF e >= len THEN len ELSE e
         empty == cs > ce \/ cs = len \/ ce = -1
         s2 == IF cs < 0 THEN 0 ELSE cs
         e2 == IF ce >= len THEN len - 1 ELSE ce
     IN (~empty /\ p >= s2 /\ p <= e2) <=> (p >= 0 /\ p < len /\ p >= s /\ p <= e)
  OBVIOUS
=============================================================================
