-------------------------------- MODULE Num --------------------------------
(***************************************************************************)
(* JSONB numbers.  A number is [r, b]: r in {"u","i","f"} (unsigned 64,    *)
(* signed 64 two's complement, IEEE-754 binary64) and b its 8 big-endian   *)
(* bytes.  Everything is exact: comparisons across representations are     *)
(* done on bit sequences, never through a floating point approximation.    *)
(***************************************************************************)
EXTENDS Bytes

N(r, b) == [r |-> r, b |-> b]

Bits(n) == BytesToBits(n.b)

----------------------------------------------------------------------------
\* IEEE-754 binary64 field access on 64 bits
FSign(bits) == bits[1]
FExp(bits)  == BitsVal(Sub(bits, 2, 12))          \* 0..2047
FMant(bits) == Sub(bits, 13, 64)                  \* 52 bits
FIsNaN(bits)  == FExp(bits) = 2047 /\ ~AllZero(FMant(bits))
FIsInf(bits)  == FExp(bits) = 2047 /\ AllZero(FMant(bits))
FIsZero(bits) == FExp(bits) = 0 /\ AllZero(FMant(bits))
FIsFinite(bits) == FExp(bits) # 2047
\* 53-bit significand and the exponent E such that |x| = m * 2^(E - 1075)
FSig(bits) == IF FExp(bits) = 0 THEN <<0>> \o FMant(bits) ELSE <<1>> \o FMant(bits)
FE(bits)   == IF FExp(bits) = 0 THEN 1 ELSE FExp(bits)

IsNaN(n) == n.r = "f" /\ FIsNaN(Bits(n))
IsFiniteNum(n) == n.r # "f" \/ FIsFinite(Bits(n))

----------------------------------------------------------------------------
\* integers: sign in {-1,0,1} and magnitude as 64 bits
ISign(n) ==
  IF AllZero(n.b) THEN 0
  ELSE IF n.r = "i" /\ n.b[1] >= 128 THEN -1 ELSE 1
IMag(n) == IF n.r = "i" /\ n.b[1] >= 128 THEN NegBits(Bits(n)) ELSE Bits(n)

\* sign of any non-NaN number
Sign(n) ==
  IF n.r = "f"
  THEN (IF FIsZero(Bits(n)) THEN 0 ELSE IF FSign(Bits(n)) = 1 THEN -1 ELSE 1)
  ELSE ISign(n)

\* |float| compared with a 64-bit magnitude M (float finite, non-zero): -1 if M < |f|, ...
MagCmpIntFloat(M, fb) ==
  LET m == FSig(fb)
      k == FE(fb) - 1075
      \* significand bit t (weight 2^(53-t)) lands at 64-bit position 11 + t - k
      over == \E t \in 1..53 : m[t] = 1 /\ (11 + t) - k < 1
      I == [j \in 1..64 |-> IF ((j - 11) + k >= 1) /\ ((j - 11) + k <= 53) THEN m[(j - 11) + k] ELSE 0]
      frac == \E t \in 1..53 : m[t] = 1 /\ (11 + t) - k > 64
  IN IF over THEN -1
     ELSE LET c == LexCmp(M, I)
          IN IF c # 0 THEN c ELSE IF frac THEN -1 ELSE 0

\* magnitude comparison of two non-NaN floats by their low 63 bits
MagCmpFloat(a, b) == LexCmp(Sub(a, 2, 64), Sub(b, 2, 64))

(***************************************************************************)
(* The order the property states: mathematical value across the three      *)
(* representations, -0 = +0, NaN equal to itself and greatest.             *)
(***************************************************************************)
NumCmp(x, y) ==
  IF IsNaN(x) \/ IsNaN(y)
  THEN (IF IsNaN(x) /\ IsNaN(y) THEN 0 ELSE IF IsNaN(x) THEN 1 ELSE -1)
  ELSE
    LET sx == Sign(x)
        sy == Sign(y)
    IN IF sx # sy THEN (IF sx < sy THEN -1 ELSE 1)
       ELSE IF sx = 0 THEN 0
       ELSE
         LET mc ==
               IF x.r = "f" /\ y.r = "f" THEN MagCmpFloat(Bits(x), Bits(y))
               ELSE IF x.r # "f" /\ y.r # "f" THEN LexCmp(IMag(x), IMag(y))
               ELSE IF x.r = "f"
                    THEN (IF FIsInf(Bits(x)) THEN 1 ELSE 0 - MagCmpIntFloat(IMag(y), Bits(x)))
                    ELSE (IF FIsInf(Bits(y)) THEN -1 ELSE MagCmpIntFloat(IMag(x), Bits(y)))
         IN IF sx > 0 THEN mc ELSE 0 - mc

NumEq(x, y) == NumCmp(x, y) = 0

----------------------------------------------------------------------------
\* The compact wire form: shortest of 1, 2, 3, 5, 9 bytes
TagZero == 0   TagNaN == 16   TagInf == 32   TagNegInf == 48
TagInt == 64   TagUInt == 80  TagFloat == 96

UWidth(b) == IF AllZero(Sub(b, 1, 7)) THEN 1
             ELSE IF AllZero(Sub(b, 1, 6)) THEN 2
             ELSE IF AllZero(Sub(b, 1, 4)) THEN 4 ELSE 8
\* two's complement value fits in w bytes iff the dropped bytes are the sign extension
IFits(b, w) ==
  LET top == b[9 - w]
      ext == IF top >= 128 THEN 255 ELSE 0
  IN \A i \in 1..(8 - w) : b[i] = ext
IWidth(b) == IF IFits(b, 1) THEN 1 ELSE IF IFits(b, 2) THEN 2 ELSE IF IFits(b, 4) THEN 4 ELSE 8

Compact(n) ==
  CASE n.r = "u" -> IF AllZero(n.b) THEN <<TagZero>> ELSE <<TagUInt>> \o Sub(n.b, 9 - UWidth(n.b), 8)
    [] n.r = "i" -> IF AllZero(n.b) THEN <<TagZero>> ELSE <<TagInt>> \o Sub(n.b, 9 - IWidth(n.b), 8)
    [] n.r = "f" -> LET bits == Bits(n)
                    IN IF FIsNaN(bits) THEN <<TagNaN>>
                       ELSE IF FIsInf(bits) THEN (IF FSign(bits) = 1 THEN <<TagNegInf>> ELSE <<TagInf>>)
                       ELSE <<TagFloat>> \o n.b

CanonNaN == N("f", <<127, 248, 0, 0, 0, 0, 0, 0>>)
PosInf   == N("f", <<127, 240, 0, 0, 0, 0, 0, 0>>)
NegInf   == N("f", <<255, 240, 0, 0, 0, 0, 0, 0>>)
UZero    == N("u", Rep(0, 8))

\* What a number reads back as: zero loses its representation, NaN its payload
CanonNum(n) ==
  IF n.r # "f" THEN (IF AllZero(n.b) THEN UZero ELSE n)
  ELSE IF FIsNaN(Bits(n)) THEN CanonNaN ELSE n

SignExt(p) == Rep(IF p[1] >= 128 THEN 255 ELSE 0, 8 - Len(p)) \o p
ZeroExt(p) == Rep(0, 8 - Len(p)) \o p

(***************************************************************************)
(* Decoding a payload.  "ok" means well formed; "bad" means malformed and  *)
(* must be rejected; "open" means the property does not say (a one-byte    *)
(* tag followed by stray bytes).                                           *)
(***************************************************************************)
DecodeClass(p) ==
  IF Len(p) = 0 THEN "bad"
  ELSE LET t == p[1]  l == Len(p) - 1
       IN IF t \in {TagZero, TagNaN, TagInf, TagNegInf} THEN (IF l = 0 THEN "ok" ELSE "open")
          ELSE IF t \in {TagInt, TagUInt} THEN (IF l \in {1, 2, 4, 8} THEN "ok" ELSE "bad")
          ELSE IF t = TagFloat THEN (IF l = 8 THEN "ok" ELSE "bad")
          ELSE "bad"

\* defined when DecodeClass(p) # "bad" (stray bytes after a one-byte tag ignored)
DecodeNum(p) ==
  LET t == p[1]
  IN CASE t = TagZero -> UZero
       [] t = TagNaN -> CanonNaN
       [] t = TagInf -> PosInf
       [] t = TagNegInf -> NegInf
       [] t = TagInt -> N("i", SignExt(Drop(p, 1)))
       [] t = TagUInt -> N("u", ZeroExt(Drop(p, 1)))
       [] t = TagFloat -> N("f", Drop(p, 1))

----------------------------------------------------------------------------
\* Views.  Absent is <<>>, present is <<bytes>>.
AsI64(n) ==
  IF n.r = "i" THEN <<n.b>>
  ELSE IF n.r = "u" THEN (IF n.b[1] < 128 THEN <<n.b>> ELSE <<>>)
  ELSE <<>>
AsU64(n) ==
  IF n.r = "u" THEN <<n.b>>
  ELSE IF n.r = "i" THEN (IF n.b[1] < 128 THEN <<n.b>> ELSE <<>>)
  ELSE <<>>

\* nearest double (round to nearest, ties to even) of sign * M, M a 64-bit magnitude
NearestDouble(neg, M) ==
  LET f == FirstOne(M)
  IN IF f = 0 THEN Rep(0, 64)
     ELSE
       LET n == 65 - f                           \* bit length
           sbit == IF neg THEN 1 ELSE 0
           ExpBits(e) == [i \in 1..11 |-> (e \div (2 ^ (11 - i))) % 2]
       IN IF n <= 53
          THEN <<sbit>> \o ExpBits(1023 + (n - 1)) \o Sub(M, f + 1, 64) \o Rep(0, 53 - n)
          ELSE
            LET T == Sub(M, f, f + 52)
                R == Sub(M, f + 53, 64)
                up == R[1] = 1 /\ (~AllZero(Drop(R, 1)) \/ T[53] = 1)
                T2 == IF up THEN IncBits(T) ELSE T
                carry == up /\ AllZero(T2)        \* 2^53 - 1 + 1 wrapped
            IN IF carry
               THEN <<sbit>> \o ExpBits(1023 + n) \o Rep(0, 52)
               ELSE <<sbit>> \o ExpBits(1023 + (n - 1)) \o Sub(T2, 2, 53)

AsF64(n) ==
  IF n.r = "f" THEN n.b
  ELSE BitsToBytes(NearestDouble(n.r = "i" /\ n.b[1] >= 128, IMag(n)))

----------------------------------------------------------------------------
\* Decimal <-> 64-bit, on base-256 digits (every intermediate fits 32 bits)
RECURSIVE MulAdd(_, _, _)
\* bytes * 10 + carry-in, processed from the least significant byte; returns <<bytes, carry-out>>
MulAdd(b, i, c) ==
  IF i = 0 THEN <<b, c>>
  ELSE LET v == (b[i] * 10) + c
       IN MulAdd([b EXCEPT ![i] = v % 256], i - 1, v \div 256)

\* digits (0..9, most significant first) -> <<8 bytes>> or <<>> when it does not fit u64
RECURSIVE DigitsToU64Acc(_, _)
DigitsToU64Acc(ds, acc) ==
  IF ds = <<>> THEN <<acc>>
  ELSE LET r == MulAdd(acc, 8, Head(ds))
       IN IF r[2] # 0 THEN <<>> ELSE DigitsToU64Acc(Tail(ds), r[1])
DigitsToU64(ds) == DigitsToU64Acc(ds, Rep(0, 8))

RECURSIVE DivMod10(_, _, _)
\* bytes div 10, from the most significant byte; returns <<quotient bytes, remainder>>
DivMod10(b, i, r) ==
  IF i > Len(b) THEN <<b, r>>
  ELSE LET v == (r * 256) + b[i]
       IN DivMod10([b EXCEPT ![i] = v \div 10], i + 1, v % 10)

RECURSIVE U64ToDigitsAcc(_, _)
U64ToDigitsAcc(b, acc) ==
  IF AllZero(b) THEN acc
  ELSE LET r == DivMod10(b, 1, 0) IN U64ToDigitsAcc(r[1], <<r[2]>> \o acc)
\* 8 bytes -> decimal digits, "0" for zero
U64ToDigits(b) == IF AllZero(b) THEN <<0>> ELSE U64ToDigitsAcc(b, <<>>)

\* ASCII decimal rendering of an integer number
IntText(n) ==
  LET neg == n.r = "i" /\ n.b[1] >= 128
      ds == U64ToDigits(BitsToBytes(IMag(n)))
      txt == [i \in 1..Len(ds) |-> 48 + ds[i]]
  IN IF neg THEN <<45>> \o txt ELSE txt

\* the integer a decimal lexeme (optional '-', digits) denotes, as the parser must keep it:
\* non-negative -> u64, negative -> i64; <<>> when it does not fit
LexemeInt(neg, ds) ==
  LET u == DigitsToU64(ds)
  IN IF u = <<>> THEN <<>>
     ELSE IF ~neg THEN <<N("u", u[1])>>
     ELSE \* magnitude must be <= 2^63
          LET bits == BytesToBits(u[1])
          IN IF bits[1] = 1 /\ ~AllZero(Drop(bits, 1)) THEN <<>>
             ELSE <<N("i", BitsToBytes(NegBits(bits)))>>
=============================================================================
