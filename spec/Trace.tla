------------------------------- MODULE Trace -------------------------------
(***************************************************************************)
(* Trace validation: every event recorded from the real crate must be a    *)
(* step the specification allows.  One event per public call; the state    *)
(* is the position in the trace plus, for chained events, the registers    *)
(* the abstract session holds.  The validator never stops at a mismatch:   *)
(* it records the line, prints the expected value and goes on.             *)
(***************************************************************************)
EXTENDS Ops, JsonText, Path, PathText, Json, IOUtils, TLC

SYS == INSTANCE System WITH ChainLen <- 0, StartSet <- "none", Walkers <- 0, reg <- <<>>, buf <- <<>>, hist <- <<>>, start <- <<>>, w <- 0, rep <- <<>>

Rec == ndJsonDeserialize(IOEnv.TRACE)

VARIABLES l,      \* next trace line
          nbad    \* number of rejected events so far
vars == <<l, nbad>>

B(x) == IF x THEN 1 ELSE 0
RBool(x) == [t |-> "bool", v |-> B(x)]
RBytes(bs) == [t |-> "bytes", v |-> Tup(bs)]
RStr(bs) == [t |-> "str", v |-> Tup(bs)]
RNone == [t |-> "none"]
RErr(e) == [t |-> "err", e |-> e]
RInt(n) == [t |-> "int", v |-> n]
ROrd(c) == [t |-> "ord", v |-> c]
ROpt(o) == IF o.t = "none" THEN RNone ELSE RBytes(Encode(o.v))
REdit(r) == IF r.t = "err" THEN RErr(r.e) ELSE RBytes(Encode(r.v))
RDoc(d) == [t |-> "doc", v |-> d]

Has(r, f) == f \in DOMAIN r
SafeEq(exp, got) == Has(got, "t") /\ exp.t = got.t /\ exp = got

Arg(ev) == ev.a
\* the document an argument denotes: a text argument denotes its integers as the text parser
\* reads them (non-negative integers unsigned)
D(ev, i) == IF Has(ev, "rp") /\ i <= Len(ev.rp) /\ ev.rp[i] # 0 THEN ToUnsigned(ev.d[i]) ELSE ev.d[i]
NDocs(ev) == IF Has(ev, "d") THEN Len(ev.d) ELSE 0
Rp(ev, i) == IF Has(ev, "rp") /\ i <= Len(ev.rp) THEN ev.rp[i] ELSE 0

\* the inputs the harness built are what the specification says they are
CommonGround(ev) ==
  /\ (ev.op = "comparable_all" => LexemesOk(ev.d[1], IF Has(ev, "fl") THEN ev.fl ELSE <<>>))
  /\ \A i \in 1..NDocs(ev) :
     IF Rp(ev, i) = 0 THEN Tup(ev.inp[i]) = Tup(Encode(ev.d[i]))
     ELSE /\ LexemesOk(ev.d[i], IF Has(ev, "fl") THEN ev.fl ELSE <<>>)
          /\ Tup(ev.inp[i]) = Tup(RenderText(ev.d[i], Rp(ev, i) - 1, IF Has(ev, "fl") THEN ev.fl ELSE <<>>))
          /\ ev.inp[i][1] # 32

\* C17: what was appended to a pre-filled buffer is what went into an empty one
BufferOk(ev) ==
  IF ~Has(ev, "res2") THEN TRUE
  ELSE LET r2 == ev.res2
           out == IF ev.res.t = "bytes" THEN ev.res.v ELSE <<>>
       IN /\ Has(r2, "t") /\ r2.t = "buf"
          /\ r2.ok = B(ev.res.t = "bytes")
          /\ Tup(r2.after) = Tup(ev.a.pre \o out)

----------------------------------------------------------------------------
(* numbers *)
NumInfoOk(ev) ==
  LET n == ev.a.n
      r == ev.res
  IN /\ r.t = "numinfo"
     /\ Tup(r.enc) = Tup(Compact(n))
     /\ r.len = Len(Compact(n))
     /\ SafeEq([t |-> "num", r |-> CanonNum(n).r, b |-> CanonNum(n).b], r.dec)
     /\ r.i64 = AsI64(n)
     /\ r.u64 = AsU64(n)
     /\ r.f64 = <<Tup(AsF64(n))>>
     /\ (n.r # "f" => Tup(r.disp) = Tup(IntText(n)))
     \* a finite float is displayed as a decimal that rounds back to exactly its bits
     /\ (n.r = "f" /\ IsFiniteNum(n) => RNVerdict(r.disp, Bits(n)) # "no")

NumDecodeOk(ev) ==
  LET p == ev.inp[1]
      c == DecodeClass(p)
      r == ev.res
  IN CASE c = "bad" -> r.t = "err"
       [] c = "ok" -> SafeEq([t |-> "num", r |-> DecodeNum(p).r, b |-> DecodeNum(p).b], r)
       [] OTHER -> r.t \in {"err", "num"}     \* stray bytes after a one-byte tag: not specified

NumCmpOk(ev) ==
  LET c == NumCmp(ev.a.x, ev.a.y)
      r == ev.res
  IN r.t = "numcmp" /\ r.cmp = c /\ r.pc = c /\ r.eq = B(c = 0)

----------------------------------------------------------------------------
(* codec *)
RoundTripOk(ev) ==
  LET d == D(ev, 1)
      r == ev.res
  IN /\ r.t = "rt"
     /\ Tup(r.b1) = Tup(Encode(d))
     /\ r.v2 = Canon(d) /\ r.v3 = Canon(d)
     /\ Tup(r.b2) = Tup(r.b1)
     /\ r.eq = 1


----------------------------------------------------------------------------
(* casts (doc comments: as_* give the value when the kind matches; to_* also coerce     *)
(* booleans, and strings holding "true"/"false" or a number)                             *)
IsDigit(b) == b >= 48 /\ b <= 57
DigitsOf(s) == [i \in 1..Len(s) |-> s[i] - 48]
\* Rust integer grammar: optional sign, at least one digit
ParseInt(s, signed) ==
  LET neg == Len(s) > 0 /\ s[1] = 45
      pos == Len(s) > 0 /\ s[1] = 43
      body == IF neg \/ pos THEN Drop(s, 1) ELSE s
  IN IF Len(body) = 0 \/ (\E i \in 1..Len(body) : ~IsDigit(body[i])) \/ (neg /\ ~signed) THEN <<>>
     ELSE LET n == LexemeInt(neg, DigitsOf(body))
          IN IF n = <<>> THEN <<>>
             ELSE IF signed THEN AsI64(n[1]) ELSE AsU64(n[1])
One8 == <<0, 0, 0, 0, 0, 0, 0, 1>>
Zero8 == <<0, 0, 0, 0, 0, 0, 0, 0>>
FOne8 == <<63, 240, 0, 0, 0, 0, 0, 0>>
LowerAscii(s) == [i \in 1..Len(s) |-> Lower(s[i])]
TrueBytes == <<116, 114, 117, 101>>
FalseBytes == <<102, 97, 108, 115, 101>>
FloatChars == {43, 45, 46, 69, 101} \cup (48..57) \cup {105, 110, 102, 116, 121, 97, 73, 78, 70, 84, 89, 65}

CastsOk(ev) ==
  LET d == D(ev, 1)
      r == ev.res
      isnum == d.k = "num"
      n == IF isnum THEN CanonNum(NumOf(d)) ELSE UZero
      isbool == d.k \in {"true", "false"}
      bv == d.k = "true"
      isstr == d.k = "str"
      sv == IF isstr THEN d.s ELSE <<>>
      InvalidCast == RErr("InvalidCast")
      ViewR(v) == IF v = <<>> THEN RNone ELSE RBytes(v[1])
      ToInt(view, signed) ==
        IF isnum /\ view # <<>> THEN RBytes(view[1])
        ELSE IF isbool THEN RBytes(IF bv THEN One8 ELSE Zero8)
        ELSE IF isstr /\ ParseInt(sv, signed) # <<>> THEN RBytes(ParseInt(sv, signed)[1])
        ELSE InvalidCast
  IN /\ r.t = "casts"
     /\ r.is_null = RBool(d.k = "null")
     /\ r.as_null = (IF d.k = "null" THEN [t |-> "unit"] ELSE RNone)
     /\ r.is_boolean = RBool(isbool)
     /\ r.as_bool = (IF isbool THEN RBool(bv) ELSE RNone)
     /\ r.to_bool = (IF isbool THEN RBool(bv)
                     ELSE IF isstr /\ Tup(LowerAscii(sv)) = TrueBytes THEN RBool(TRUE)
                     ELSE IF isstr /\ Tup(LowerAscii(sv)) = FalseBytes THEN RBool(FALSE)
                     ELSE InvalidCast)
     /\ r.is_number = RBool(isnum)
     /\ r.as_number = (IF isnum THEN [t |-> "num", r |-> n.r, b |-> n.b] ELSE RNone)
     /\ r.is_i64 = RBool(isnum /\ AsI64(n) # <<>>)
     /\ r.as_i64 = (IF isnum THEN ViewR(AsI64(n)) ELSE RNone)
     /\ r.to_i64 = ToInt(IF isnum THEN AsI64(n) ELSE <<>>, TRUE)
     /\ r.is_u64 = RBool(isnum /\ AsU64(n) # <<>>)
     /\ r.as_u64 = (IF isnum THEN ViewR(AsU64(n)) ELSE RNone)
     /\ r.to_u64 = ToInt(IF isnum THEN AsU64(n) ELSE <<>>, FALSE)
     /\ r.is_f64 = RBool(isnum)
     /\ r.as_f64 = (IF isnum THEN RBytes(AsF64(n)) ELSE RNone)
     /\ (IF isnum THEN r.to_f64 = RBytes(AsF64(n))
         ELSE IF isbool THEN r.to_f64 = RBytes(IF bv THEN FOne8 ELSE Zero8)
         ELSE IF isstr /\ ParseInt(sv, TRUE) # <<>> THEN r.to_f64 = RBytes(AsF64(N("i", ParseInt(sv, TRUE)[1])))
         ELSE IF isstr /\ ParseInt(sv, FALSE) # <<>> THEN r.to_f64 = RBytes(AsF64(N("u", ParseInt(sv, FALSE)[1])))
         \* a string holding an RFC 8259 number: the nearest double (decided by exact arithmetic)
         ELSE IF isstr /\ Len(sv) > 0 /\ NumLex(sv, 1).end = Len(sv) + 1
              THEN r.to_f64.t = "bytes" /\ RNVerdict(sv, BytesToBits(r.to_f64.v)) # "no"
         ELSE IF isstr /\ Len(sv) > 0 /\ (\A i \in 1..Len(sv) : sv[i] \in FloatChars)
              THEN r.to_f64.t \in {"bytes", "err"}      \* other float spellings: not specified here
         ELSE r.to_f64 = InvalidCast)
     /\ r.is_string = RBool(isstr)
     /\ r.as_str = (IF isstr THEN RStr(sv) ELSE RNone)
     /\ (IF isstr THEN r.to_str = RStr(sv)
         ELSE IF isbool THEN r.to_str = RStr(IF bv THEN TrueBytes ELSE FalseBytes)
         ELSE IF isnum /\ n.r # "f" THEN r.to_str = RStr(IntText(n))
         ELSE IF isnum /\ IsFiniteNum(n) THEN r.to_str.t = "str" /\ RNVerdict(r.to_str.v, Bits(n)) # "no"
         ELSE IF isnum THEN r.to_str.t = "str"          \* NaN and the infinities have no JSON spelling
         ELSE r.to_str = InvalidCast)
     /\ r.is_array = RBool(d.k = "arr")
     /\ r.is_object = RBool(d.k = "obj")

ObjectEach(d) ==
  IF d.k = "obj" THEN [t |-> "pairs", v |-> [i \in 1..Len(d.o) |-> <<d.o[i][1], Tup(Encode(d.o[i][2]))>>]] ELSE RNone
ArrayValues(d) ==
  IF d.k = "arr" THEN [t |-> "list", v |-> [i \in 1..Len(d.a) |-> Tup(Encode(d.a[i]))]] ELSE RNone

----------------------------------------------------------------------------
(* text: parsing and rendering *)
ParseValueOk(ev) ==
  LET spec == Parse(ev.inp[1], FALSE)
      r == ev.res
  IN IF spec = Err THEN r.t = "err"
     ELSE r.t = "doc" /\ Matches(spec, r.v) # "no"

RenderOk(ev) ==
  LET d == D(ev, 1)
      r == ev.res
      pc == Parse(r.c, TRUE)
      pp == Parse(r.p, TRUE)
      want == RBytes(Encode(ToUnsigned(d)))
  IN /\ r.t = "render"
     /\ pc # Err /\ Denotes(pc, d) # "no"
     /\ pp # Err /\ Denotes(pp, d) # "no"
     /\ PrettyLayoutOk(r.c, r.p)
     /\ SafeEq(want, r.rc) /\ SafeEq(want, r.rp)

----------------------------------------------------------------------------
(* serde_json bridge (C19): the serde model is the document with every integer classified  *)
(* PosInt (u) / NegInt (i) and floats by bits                                               *)
SerdeOk(ev) ==
  LET d == D(ev, 1)
      r == ev.res
      want == ToUnsigned(Canon(d))
      strict == Parse(r.text, TRUE)
  IN /\ r.t = "serdeinfo"
     /\ SafeEq([t |-> "serde", v |-> want], r.bytes)
     \* ... which is what an independent strict parser reads from the text rendering
     /\ strict # Err /\ Matches(strict, want) # "no"
     /\ (IF d.k = "obj" THEN SafeEq([t |-> "serde", v |-> want], r.object) ELSE SafeEq(RNone, r.object))
     /\ SafeEq([t |-> "serde", v |-> want], r.tree)
     /\ SafeEq(RDoc(want), r.tree_back) /\ DocEq(r.tree_back.v, d)
     /\ SafeEq(RDoc(want), r.bytes_back)
     \* the same through the bytes the crate's own encoder produces for the tree
     /\ (Has(r, "enc") => SafeEq([t |-> "serde", v |-> want], r.enc))

\* to_serde_json on arbitrary JSON text: the serde value is what the text denotes; a number beyond the
\* double range (an infinity for this crate's parser) has no serde_json representation: an error
RECURSIVE HasHugeLex(_)
HasHugeLex(d) ==
  CASE d.k = "num" -> d.r = "lex" /\ (RNVerdict(d.lx, BytesToBits(PosInf.b)) = "yes" \/ RNVerdict(d.lx, BytesToBits(NegInf.b)) = "yes")
    [] d.k = "arr" -> \E i \in 1..Len(d.a) : HasHugeLex(d.a[i])
    [] d.k = "obj" -> \E i \in 1..Len(d.o) : HasHugeLex(d.o[i][2])
    [] OTHER -> FALSE
SerdeRawOk(ev) ==
  LET p == Parse(ev.inp[1], FALSE)
      r == ev.res
  IN /\ r.t = "serderaw"
     /\ IF p = Err THEN r.bytes.t = "err" /\ r.object.t = "err"
        ELSE IF HasHugeLex(p) THEN r.bytes.t = "err" /\ (IF p.k = "obj" THEN r.object.t = "err" ELSE r.object.t = "none")
        ELSE /\ r.bytes.t = "serde" /\ Matches(p, r.bytes.v) # "no"
             /\ (IF p.k = "obj" THEN r.object.t = "serde" /\ r.object.v = r.bytes.v ELSE r.object.t = "none")

----------------------------------------------------------------------------
(* decoding untrusted bytes (C10) *)
RECURSIVE StringsWellFormed(_)
StringsWellFormed(d) ==
  CASE d.k = "str" -> WellFormed(d.s)
    [] d.k = "arr" -> \A i \in 1..Len(d.a) : StringsWellFormed(d.a[i])
    [] d.k = "obj" -> \A i \in 1..Len(d.o) : WellFormed(d.o[i][1]) /\ StringsWellFormed(d.o[i][2])
    [] OTHER -> TRUE
DecResOk(r) == Has(r, "t") /\ (r.t = "err" \/ (r.t = "doc" /\ StringsWellFormed(r.v)))
DecodeOk(ev) ==
  LET raw == ev.inp[1]
      a == ev.a
  IN /\ DecResOk(ev.res) /\ DecResOk(ev.res_fs)
     \* a proper prefix of a valid encoding is an error for both decoders
     /\ (Has(a, "of") =>
           /\ a.cut < Len(Encode(a.of)) /\ Tup(raw) = Tup(Take(Encode(a.of), a.cut))      \* the script is what it claims
           /\ ev.res.t = "err" /\ ev.res_fs.t = "err")
     \* valid JSON text not beginning with a space: the text fallback yields the value it denotes
     /\ (Has(a, "text") =>
           LET spec == Parse(raw, TRUE)
           IN /\ spec # Err /\ raw[1] # 32
              /\ ev.res_fs.t = "doc" /\ Matches(spec, ev.res_fs.v) # "no")
     \* an intact encoding decodes to the document
     /\ (Has(a, "intact") =>
           /\ Tup(raw) = Tup(Encode(a.intact))
           /\ SafeEq(RDoc(Canon(a.intact)), ev.res) /\ SafeEq(RDoc(Canon(a.intact)), ev.res_fs))

LazyOk(ev) ==
  LET d == D(ev, 1)
      r == ev.res
      isbin == Rp(ev, 1) = 0
      pre == IF Has(ev.a, "pre") THEN ev.a.pre ELSE <<>>
  IN /\ r.t = "lazy"
     /\ r.kind = (IF isbin THEN "raw" ELSE "value")
     /\ Tup(r.vec) = Tup(Encode(d)) /\ Tup(r.wvec) = Tup(pre \o Encode(d))
     /\ r.alen = (IF d.k = "arr" THEN <<Len(d.a)>> ELSE <<>>)
     /\ DocEq(r.val, d) /\ Tup(Encode(r.val)) = Tup(Encode(d))


----------------------------------------------------------------------------
(* JSONPath selection (C08, C15, C17): one event holds the four modes through the Selector *)
(* API, the convenience functions, existence and predicate match                           *)
SelOk(r, items, pre, preoffs) ==
  LET chunks == [i \in 1..Len(items) |-> Encode(items[i])]
  IN /\ Has(r, "t") /\ r.t = "sel"
     /\ Tup(r.data) = Tup(pre \o Flat(chunks))
     /\ Tup(r.offs) = Tup(preoffs \o RunningEnds(chunks, Len(pre)))
\* a predicate path: every mode writes the one boolean; whether an offset is recorded for it
\* is not specified
PredSelOk(r, b, pre, preoffs) ==
  /\ Has(r, "t") /\ r.t = "sel"
  /\ Tup(r.data) = Tup(pre \o Encode(Bool(b)))
  /\ (Tup(r.offs) = Tup(preoffs) \/ Tup(r.offs) = Tup(preoffs \o <<Len(pre) + 8>>))
\* an evaluation error: reported as an error, buffers as they were
ErrSelOk(r, pre, preoffs) == Has(r, "t") /\ r.t = "err" /\ Tup(r.data) = Tup(pre) /\ Tup(r.offs) = Tup(preoffs)

SelectOk(ev) ==
  LET r == ev.res
      a == ev.a
      ps == ev.ast
      pre == IF Has(a, "pre") THEN a.pre ELSE <<>>
      preoffs == IF Has(a, "preoffs") THEN a.preoffs ELSE <<>>
      \* the Selector API is always given the JSONB encoding of the tree; the convenience functions are
      \* given the representation the script asked for (a text argument denotes its integers unsigned)
      sApi == Select(ps, ev.d[1])
      sFn == Select(ps, D(ev, 1))
      ModeOk(s, rr, mode) ==
        IF ~s.ok THEN ErrSelOk(rr, pre, preoffs)
        ELSE IF IsPredicate(ps) THEN PredSelOk(rr, Len(s.v) > 0, pre, preoffs)
        ELSE SelOk(rr, ModeItems(mode, s.v), pre, preoffs)
      ExistsOk(s, rr) ==
        IF IsPredicate(ps) THEN SafeEq(RBool(TRUE), rr)
        ELSE IF ~s.ok THEN rr.t = "err" ELSE SafeEq(RBool(Len(s.v) > 0), rr)
      MatchOk(s, rr) ==
        IF ~IsPredicate(ps) THEN SafeEq(RErr("InvalidJsonPathPredicate"), rr)
        ELSE IF ~s.ok THEN rr.t = "err" ELSE SafeEq(RBool(Len(s.v) > 0), rr)
  IN IF r.t = "noparse" THEN ~Has(a, "path") /\ Has(a, "mustparse") = FALSE
     ELSE
     /\ r.t = "select"
     /\ (Has(a, "path") => ps = a.path)
     /\ ModeOk(sApi, r.all, "all") /\ ModeOk(sApi, r.first, "first") /\ ModeOk(sApi, r.array, "array") /\ ModeOk(sApi, r.mixed, "mixed")
     /\ ModeOk(sFn, r.f_mixed, "mixed") /\ ModeOk(sFn, r.f_first, "first") /\ ModeOk(sFn, r.f_array, "array")
     /\ ExistsOk(sApi, r.exists) /\ ExistsOk(sFn, r.f_exists)
     /\ MatchOk(sApi, r.pmatch) /\ MatchOk(sFn, r.f_match)

----------------------------------------------------------------------------
(* the tree-level API of Value (not a listed property; the text paths of the byte-level     *)
(* functions go through it)                                                                  *)
Opt(o) == IF o.t = "none" THEN <<>> ELSE <<o.v>>
ValueApiOk(ev) ==
  LET d == ev.d[1]
      r == ev.res
      isnum == d.k = "num"
      n == IF isnum THEN NumOf(d) ELSE UZero
      name == IF Has(ev.a, "n") THEN ev.a.n ELSE <<>>
  IN /\ r.t = "valueapi"
     /\ r.ic = Opt(GetByName(d, name, TRUE))
     /\ r.alen = (IF d.k = "arr" THEN <<Len(d.a)>> ELSE <<>>)
     /\ r.keys = Opt(ObjectKeys(d))
     /\ r.is = <<B(IsScalar(d)), B(d.k = "obj"), B(d.k = "arr"), B(d.k = "str"), B(isnum), B(d.k = "null"), B(d.k \in {"true", "false"}),
                 B(isnum /\ AsI64(n) # <<>>), B(isnum /\ AsU64(n) # <<>>), B(isnum)>>
     /\ r.i64 = (IF isnum THEN AsI64(n) ELSE <<>>)
     /\ r.u64 = (IF isnum THEN AsU64(n) ELSE <<>>)
     /\ r.f64 = (IF isnum THEN <<Tup(AsF64(n))>> ELSE <<>>)
     /\ r.bool = (IF d.k \in {"true", "false"} THEN <<B(d.k = "true")>> ELSE <<>>)
     /\ r.str = (IF d.k = "str" THEN <<Tup(d.s)>> ELSE <<>>)
     /\ (Len(ev.d) >= 2 => r.eq = <<B(DocEq(d, ev.d[2])), B(Rank(d) = Rank(ev.d[2]) \/ (d.k \in {"true", "false"} /\ ev.d[2].k \in {"true", "false"}))>>)
     /\ Tup(r.vec) = Tup(Encode(d))
     /\ r.clone_eq = B(~(isnum /\ FALSE)) /\ r.default_is_null = 1
RECURSIVE ShallowScalars(_)
ShallowScalars(d) == CASE d.k = "arr" -> \A i \in 1..Len(d.a) : IsScalar(d.a[i])
                      [] d.k = "obj" -> \A i \in 1..Len(d.o) : IsScalar(d.o[i][2])
                      [] OTHER -> TRUE
RandValueOk(ev) == ev.res.t = "rand" /\ IsDoc(ev.res.v) /\ ShallowScalars(ev.res.v) /\ Tup(ev.res.vec) = Tup(Encode(ev.res.v))
                   /\ IsCanonical(ev.res.vec)
\* From conversions: signed integers become i, unsigned u, f32 widens exactly, iterators build arrays / objects
FromConvOk(ev) == SafeEq(RDoc(ev.a.want), ev.res)

----------------------------------------------------------------------------
(* surface grammars (C09, C16): the text was rendered from a.want by spec/PathText.tla *)
SyntaxOk(ev, kind) ==
  LET a == ev.a
      r == ev.res
  IN IF Has(a, "expect")
     THEN (IF a.expect = "err" THEN r.t = "err" ELSE r.t \in {"err", kind})
     ELSE /\ r.t = kind
          /\ r.v = a.want
          \* printing and parsing the printout gives the same structure when nothing needs quoting
          /\ (a.plain = 1 => Has(r.re, "t") /\ r.re.t = kind /\ r.re.v = a.want)
          /\ (Has(r.re, "t") /\ r.re.t # "panic")

----------------------------------------------------------------------------
(* chains (C07, C17): the abstract registers are advanced with System!ApplyStep, the very   *)
(* operator the state machine's actions use; the crate's own output bytes were threaded    *)
(* from call to call by the harness and must equal Encode(register) at every step, and the *)
(* shared buffer must be the concatenation of the results so far                            *)
RECURSIVE ChainFrom(_, _, _, _, _)
\* returns the concatenation of everything appended, or <<-1>> when a step is rejected
ChainFrom(steps, outs, k, rg, bufSoFar) ==
  IF k > Len(steps) THEN bufSoFar
  ELSE LET s == steps[k]
           r == SYS!ApplyStep(s, rg)
           o == outs[k]
       IN IF r.t = "doc"
          THEN IF /\ Has(o, "t") /\ o.t = "bytes"
                  /\ Tup(o.v) = Tup(Encode(r.v))
                  /\ o.buflen = Len(bufSoFar) + Len(o.v)       \* (canonical because equal to Encode of a document: System!CanonInv)
               THEN ChainFrom(steps, outs, k + 1, [rg EXCEPT ![s.dst] = r.v], bufSoFar \o o.v)
               ELSE <<-1>>
          ELSE IF r.t = "text"
          \* a rendering: valid JSON denoting the register; the register now holds what that text denotes
          THEN IF /\ Has(o, "t") /\ o.t = "text" /\ o.buflen = Len(bufSoFar)
                  /\ Parse(o.v, TRUE) # Err /\ Denotes(Parse(o.v, TRUE), r.v) # "no" /\ o.v[1] # 32
               THEN ChainFrom(steps, outs, k + 1, [rg EXCEPT ![s.dst] = r.v], bufSoFar)
               ELSE <<-1>>
          ELSE IF /\ Has(o, "t") /\ o.t = r.t
                  /\ (r.t = "err" /\ s.f # "select" => o.e = r.e)
                  /\ o.buflen = Len(bufSoFar)
               THEN ChainFrom(steps, outs, k + 1, rg, bufSoFar)
               ELSE <<-1>>
ChainOk(ev) ==
  /\ ev.res.t = "chain"
  /\ \A i \in 1..Len(ev.start) : Tup(ev.res.start[i]) = Tup(Encode(ev.start[i]))
  /\ Len(ev.res.outs) = Len(ev.steps)
  /\ Tup(ChainFrom(ev.steps, ev.res.outs, 1, ev.start, <<>>)) = Tup(ev.res.buf)

----------------------------------------------------------------------------
Accept(ev) ==
  LET op == ev.op
      a == IF Has(ev, "a") THEN ev.a ELSE [z |-> 0]
  IN
  CASE op = "to_vec" -> SafeEq(RBytes(Encode(D(ev, 1))), ev.res) /\ BufferOk(ev)
    [] op = "roundtrip" -> RoundTripOk(ev)
    [] op = "parse_value" -> ParseValueOk(ev)
    [] op = "render" -> RenderOk(ev)
    [] op = "serde" -> SerdeOk(ev)
    [] op = "serde_raw" -> SerdeRawOk(ev)
    [] op = "value_api" -> ValueApiOk(ev)
    [] op = "rand_value" -> RandValueOk(ev)
    [] op = "from_conv" -> FromConvOk(ev)
    [] op = "select" -> SelectOk(ev)
    [] op = "chain" -> ChainOk(ev)
    [] op = "deep" -> ev.res.t \in {"ok", "err"}
    [] op = "jp_parse" -> SyntaxOk(ev, "path")
    [] op = "kp_parse" -> SyntaxOk(ev, "kp")
    [] op \in {"to_string", "to_pretty_string"} ->
         ev.res.t = "str" /\ Parse(ev.res.v, TRUE) # Err /\ Denotes(Parse(ev.res.v, TRUE), D(ev, 1)) # "no"
    [] op = "decode" -> DecodeOk(ev)
    [] op = "lazy" -> LazyOk(ev)
    [] op = "num" -> NumInfoOk(ev)
    [] op = "num_decode" -> NumDecodeOk(ev)
    [] op = "num_cmp" -> NumCmpOk(ev)
    [] op = "compare" -> SafeEq(ROrd(Cmp(D(ev, 1), D(ev, 2))), ev.res)
    [] op = "contains" -> SafeEq(RBool(DocContains(D(ev, 1), D(ev, 2))), ev.res)
    [] op = "get_by_index" -> SafeEq(ROpt(GetByIndex(D(ev, 1), a.i)), ev.res)
    [] op = "get_by_name" -> SafeEq(ROpt(GetByName(D(ev, 1), a.n, a.ic = 1)), ev.res)
    [] op = "get_by_keypath" -> SafeEq(ROpt(GetByKeypath(D(ev, 1), a.kp)), ev.res)
    [] op = "array_length" -> SafeEq(ArrayLength(D(ev, 1)), ev.res)
    [] op = "object_keys" -> SafeEq(ROpt(ObjectKeys(D(ev, 1))), ev.res)
    [] op = "object_each" -> SafeEq(ObjectEach(D(ev, 1)), ev.res)
    [] op = "array_values" -> SafeEq(ArrayValues(D(ev, 1)), ev.res)
    [] op = "type_of" -> SafeEq([t |-> "name", v |-> TypeName(D(ev, 1))], ev.res)
    [] op = "casts" -> CastsOk(ev)
    [] op = "exists_keys" -> SafeEq(RBool(IF a.all = 1 THEN ExistsAllKeys(D(ev, 1), a.keys) ELSE ExistsAnyKeys(D(ev, 1), a.keys)), ev.res)
    [] op = "traverse" -> SafeEq(RBool(TraverseCheckString(D(ev, 1), a.pred)), ev.res)
    \* the key order must be the order of the documents - the specification's, and the one compare itself reports
    [] op = "comparable2" -> /\ ev.res.t = "keys" /\ LexCmp(ev.res.k0, ev.res.k1) = Cmp(D(ev, 1), D(ev, 2))
                             /\ SafeEq(ROrd(LexCmp(ev.res.k0, ev.res.k1)), ev.res.cmp)
    [] op = "comparable_all" -> ev.res.t = "keyset" /\ \A i \in 1..Len(ev.res.k) : Tup(ev.res.k[i]) = Tup(ev.res.k[1])
    [] op = "concat" -> SafeEq(RBytes(Encode(Concat(D(ev, 1), D(ev, 2)))), ev.res) /\ BufferOk(ev)
    [] op = "delete_by_name" -> SafeEq(REdit(DeleteByName(D(ev, 1), a.n)), ev.res) /\ BufferOk(ev)
    [] op = "delete_by_index" -> SafeEq(REdit(DeleteByIndex(D(ev, 1), a.i)), ev.res) /\ BufferOk(ev)
    [] op = "delete_by_keypath" -> SafeEq(REdit(DeleteByKeypath(D(ev, 1), a.kp)), ev.res) /\ BufferOk(ev)
    [] op = "array_insert" -> SafeEq(RBytes(Encode(ArrayInsert(D(ev, 1), a.pos, D(ev, 2)))), ev.res) /\ BufferOk(ev)
    [] op = "object_insert" -> SafeEq(REdit(ObjectInsert(D(ev, 1), a.n, D(ev, 2), a.upd = 1)), ev.res) /\ BufferOk(ev)
    [] op = "object_delete" -> SafeEq(REdit(ObjectDelete(D(ev, 1), a.keys)), ev.res) /\ BufferOk(ev)
    [] op = "object_pick" -> SafeEq(REdit(ObjectPick(D(ev, 1), a.keys)), ev.res) /\ BufferOk(ev)
    [] op = "strip_nulls" -> SafeEq(RBytes(Encode(StripNulls(D(ev, 1)))), ev.res) /\ BufferOk(ev)
    [] op = "build_array" -> SafeEq(RBytes(Encode(BuildArray(ev.d))), ev.res) /\ BufferOk(ev)
    [] op = "build_object" -> SafeEq(RBytes(Encode(BuildObject(a.keys, ev.d))), ev.res) /\ BufferOk(ev)
    [] op = "array_distinct" -> SafeEq(RBytes(Encode(ArrayDistinct(D(ev, 1)))), ev.res) /\ BufferOk(ev)
    [] op = "array_intersection" -> SafeEq(RBytes(Encode(ArrayIntersection(D(ev, 1), D(ev, 2)))), ev.res) /\ BufferOk(ev)
    [] op = "array_except" -> SafeEq(RBytes(Encode(ArrayExcept(D(ev, 1), D(ev, 2)))), ev.res) /\ BufferOk(ev)
    [] op = "array_overlap" -> SafeEq(RBool(ArrayOverlap(D(ev, 1), D(ev, 2))), ev.res)
    [] OTHER -> FALSE


----------------------------------------------------------------------------
(* classes of rejected events, so that a recorded finding is as narrow as the defect *)
RECURSIVE FirstDiff(_, _)
\* the pair of sub-documents (or keys, as strings) at which compare decides; <<>> if equal
FirstDiff(x, y) ==
  IF Cmp(x, y) = 0 THEN <<>>
  ELSE IF x.k # y.k THEN <<x, y>>
  ELSE CASE x.k = "arr" ->
              LET n == Min2(Len(x.a), Len(y.a))
                  S == {i \in 1..n : Cmp(x.a[i], y.a[i]) # 0}
              IN IF S = {} THEN <<x, y>> ELSE LET i == CHOOSE i \in S : \A j \in S : i <= j IN FirstDiff(x.a[i], y.a[i])
         [] x.k = "obj" ->
              LET n == Min2(Len(x.o), Len(y.o))
                  S == {i \in 1..n : x.o[i][1] # y.o[i][1] \/ Cmp(x.o[i][2], y.o[i][2]) # 0}
              IN IF S = {} THEN <<x, y>>
                 ELSE LET i == CHOOSE i \in S : \A j \in S : i <= j
                      IN IF x.o[i][1] # y.o[i][1] THEN <<Str(x.o[i][1]), Str(y.o[i][1])>> ELSE FirstDiff(x.o[i][2], y.o[i][2])
         [] OTHER -> <<x, y>>
Classify(ev) ==
  IF ev.op # "comparable2" THEN ""
  ELSE LET fd == FirstDiff(D(ev, 1), D(ev, 2))
       IN IF fd = <<>> THEN "equal-documents"
          ELSE IF fd[1].k = "num" /\ fd[2].k = "num" /\ IsFiniteNum(NumOf(fd[1])) /\ IsFiniteNum(NumOf(fd[2]))
                  /\ Tup(AsF64(NumOf(fd[1]))) = Tup(AsF64(NumOf(fd[2])))
               THEN "numbers-with-equal-nearest-double"
          ELSE IF fd[1].k = "str" /\ fd[2].k = "str" /\ (IsPrefixOf(fd[1].s, fd[2].s) \/ IsPrefixOf(fd[2].s, fd[1].s))
               THEN "string-is-prefix-of-sibling-string"
          ELSE "other"

\* "ok", "bad" (the code is not a step of the spec) or "tool" (the harness' own input is wrong)
Verdict(ev) ==
  IF Has(ev.res, "t") /\ ev.res.t = "harness-error" THEN "tool"
  ELSE IF ~CommonGround(ev) THEN "tool"
  ELSE IF Has(ev.res, "t") /\ Accept(ev) THEN "ok" ELSE "bad"

Init == l = 1 /\ nbad = 0
\* one line per rejected event, as a single string so that TLC never wraps it, and the total
\* at the end so that the orchestrator can tell a lost line from a pass
Report(v, ev) ==
  PrintT("VERDICT|" \o v \o "|" \o ToString(l) \o "|" \o ev.op \o "|" \o ToString(IF Has(ev, "id") THEN ev.id ELSE 0)
         \o "|" \o (IF v = "bad" THEN Classify(ev) ELSE "") \o "|")
Next ==
  /\ l <= Len(Rec)
  /\ LET v == Verdict(Rec[l])
     IN /\ IF v = "ok" THEN TRUE ELSE Report(v, Rec[l])
        /\ nbad' = IF v = "ok" THEN nbad ELSE nbad + 1
        /\ IF l = Len(Rec) THEN PrintT("NBAD|" \o ToString(nbad') \o "|") ELSE TRUE
  /\ l' = l + 1
Spec == Init /\ [][Next]_vars

\* every line was consumed (a validator that silently stops is a tool error, not a pass)
Consumed == IF TLCGet("stats").diameter - 1 = Len(Rec) THEN PrintT(<<"CONSUMED", Len(Rec)>>)
            ELSE PrintT(<<"NOT-CONSUMED", TLCGet("stats").diameter - 1, Len(Rec)>>) /\ FALSE
=============================================================================
