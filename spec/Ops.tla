-------------------------------- MODULE Ops --------------------------------
(***************************************************************************)
(* Tree meaning of the public byte-level functions: what each one must     *)
(* return, stated on the abstract document.  Written from the doc comments *)
(* and the property statements.  Results that are documents are compared   *)
(* with the implementation as Encode(result), byte for byte.               *)
(***************************************************************************)
EXTENDS Jsonb

None == [t |-> "none"]
Some(d) == [t |-> "some", v |-> d]
ErrR(e) == [t |-> "err", e |-> e]
OkD(d) == [t |-> "ok", v |-> d]

----------------------------------------------------------------------------
(* compare: Null > Array > Object > String > Number > true > false *)
Rank(d) ==
  CASE d.k = "null" -> 7 [] d.k = "arr" -> 6 [] d.k = "obj" -> 5 [] d.k = "str" -> 4
    [] d.k = "num" -> 3 [] d.k = "true" -> 2 [] d.k = "false" -> 1

RECURSIVE Cmp(_, _), CmpArrFrom(_, _, _), CmpObjFrom(_, _, _)
Cmp(x, y) ==
  IF Rank(x) # Rank(y) THEN (IF Rank(x) < Rank(y) THEN -1 ELSE 1)
  ELSE CASE x.k = "num" -> NumCmp(NumOf(x), NumOf(y))
         [] x.k = "str" -> LexCmp(x.s, y.s)
         [] x.k = "arr" -> CmpArrFrom(x.a, y.a, 1)
         [] x.k = "obj" -> CmpObjFrom(x.o, y.o, 1)
         [] OTHER -> 0
\* element by element, then by length
CmpArrFrom(a, b, i) ==
  IF i > Len(a) \/ i > Len(b)
  THEN (IF Len(a) < Len(b) THEN -1 ELSE IF Len(a) > Len(b) THEN 1 ELSE 0)
  ELSE LET c == Cmp(a[i], b[i]) IN IF c # 0 THEN c ELSE CmpArrFrom(a, b, i + 1)
\* key, then value, pair by pair in key order, then by size
CmpObjFrom(a, b, i) ==
  IF i > Len(a) \/ i > Len(b)
  THEN (IF Len(a) < Len(b) THEN -1 ELSE IF Len(a) > Len(b) THEN 1 ELSE 0)
  ELSE LET kc == LexCmp(a[i][1], b[i][1])
       IN IF kc # 0 THEN kc
          ELSE LET c == Cmp(a[i][2], b[i][2]) IN IF c # 0 THEN c ELSE CmpObjFrom(a, b, i + 1)

----------------------------------------------------------------------------
(* containment (PostgreSQL @>) *)
RECURSIVE ContainsIn(_, _)
\* nested rule: same kind; scalars by compare-equality
ContainsIn(a, b) ==
  IF a.k # b.k THEN FALSE
  ELSE CASE a.k = "obj" ->
              \A j \in 1..Len(b.o) :
                 LET i == FindKey(a.o, b.o[j][1])
                 IN i # 0 /\ ContainsIn(a.o[i][2], b.o[j][2])
         [] a.k = "arr" ->
              \A j \in 1..Len(b.a) : \E i \in 1..Len(a.a) : ContainsIn(a.a[i], b.a[j])
         [] OTHER -> Cmp(a, b) = 0
\* top level: an array also contains a bare scalar equal to one of its elements
DocContains(a, b) ==
  IF a.k = "arr" /\ IsScalar(b) THEN \E i \in 1..Len(a.a) : Cmp(a.a[i], b) = 0
  ELSE ContainsIn(a, b)

----------------------------------------------------------------------------
(* array set functions: elements are identical when they have the same entry type and   *)
(* payload, i.e. the same JSON value in the same number encoding                          *)
ElemsOf(d) == IF d.k = "arr" THEN d.a ELSE <<d>>
SameElem(x, y) == EntryOf(x) = EntryOf(y)
CountIn(x, l) == Cardinality({i \in 1..Len(l) : SameElem(l[i], x)})

RECURSIVE DistinctFrom(_, _, _)
DistinctFrom(l, i, acc) ==
  IF i > Len(l) THEN acc
  ELSE IF \E j \in 1..Len(acc) : SameElem(acc[j], l[i]) THEN DistinctFrom(l, i + 1, acc)
  ELSE DistinctFrom(l, i + 1, Append(acc, l[i]))
DistinctList(l) == DistinctFrom(l, 1, <<>>)

\* l1[i] is kept by the intersection iff fewer copies of it precede it in l1 than l2 holds
KeptByInter(l1, l2, i) ==
  Cardinality({j \in 1..(i - 1) : SameElem(l1[j], l1[i])}) < CountIn(l1[i], l2)
SelectIdx(l, P(_)) ==
  LET RECURSIVE Go(_, _)
      Go(i, acc) == IF i > Len(l) THEN acc ELSE Go(i + 1, IF P(i) THEN Append(acc, l[i]) ELSE acc)
  IN Go(1, <<>>)
InterList(l1, l2) == SelectIdx(l1, LAMBDA i : KeptByInter(l1, l2, i))
ExceptList(l1, l2) == SelectIdx(l1, LAMBDA i : ~KeptByInter(l1, l2, i))

ArrayDistinct(d) == Arr(DistinctList(ElemsOf(d)))
ArrayIntersection(x, y) == Arr(InterList(ElemsOf(x), ElemsOf(y)))
ArrayExcept(x, y) == Arr(ExceptList(ElemsOf(x), ElemsOf(y)))
ArrayOverlap(x, y) == \E i \in 1..Len(ElemsOf(x)) : CountIn(ElemsOf(x)[i], ElemsOf(y)) > 0

----------------------------------------------------------------------------
(* read-only accessors *)
Lower(b) == IF b >= 65 /\ b <= 90 THEN b + 32 ELSE b
EqIgnoreAsciiCase(s, t) == Len(s) = Len(t) /\ \A i \in 1..Len(s) : Lower(s[i]) = Lower(t[i])

GetByIndex(d, i) == IF d.k = "arr" /\ i >= 0 /\ i < Len(d.a) THEN Some(d.a[i + 1]) ELSE None

GetByName(d, name, ic) ==
  IF d.k # "obj" THEN None
  ELSE LET i == FindKey(d.o, name)
       IN IF i # 0 THEN Some(d.o[i][2])
          ELSE IF ~ic THEN None
          ELSE LET S == {j \in 1..Len(d.o) : EqIgnoreAsciiCase(d.o[j][1], name)}
               IN IF S = {} THEN None ELSE Some(d.o[CHOOSE j \in S : \A m \in S : j <= m][2])

\* key path elements: [i |-> n] index, [n |-> bytes] plain name, [q |-> bytes] quoted name
KpIsIndex(e) == "i" \in DOMAIN e
KpName(e) == IF "n" \in DOMAIN e THEN e.n ELSE e.q
\* the position an index denotes in a list of length len, or -1
ResolveIdx(i, len) == IF i >= 0 THEN (IF i < len THEN i ELSE -1) ELSE (IF len + i >= 0 THEN len + i ELSE -1)

RECURSIVE GetByKeypath(_, _)
GetByKeypath(d, kp) ==
  IF kp = <<>> THEN Some(d)
  ELSE LET e == Head(kp)
       IN IF KpIsIndex(e)
          THEN IF d.k # "arr" THEN None
               ELSE LET p == ResolveIdx(e.i, Len(d.a))
                    IN IF p < 0 THEN None ELSE GetByKeypath(d.a[p + 1], Tail(kp))
          ELSE IF d.k # "obj" THEN None
               ELSE LET i == FindKey(d.o, KpName(e))
                    IN IF i = 0 THEN None ELSE GetByKeypath(d.o[i][2], Tail(kp))

ArrayLength(d) == IF d.k = "arr" THEN [t |-> "int", v |-> Len(d.a)] ELSE None
ObjectKeys(d) == IF d.k = "obj" THEN Some(Arr([i \in 1..Len(d.o) |-> Str(d.o[i][1])])) ELSE None
TypeName(d) ==
  CASE d.k = "null" -> "null" [] d.k \in {"true", "false"} -> "boolean" [] d.k = "num" -> "number"
    [] d.k = "str" -> "string" [] d.k = "arr" -> "array" [] d.k = "obj" -> "object"

\* key-existence: top-level keys of an object, string elements of an array
KeyExists(d, key) ==
  CASE d.k = "obj" -> FindKey(d.o, key) # 0
    [] d.k = "arr" -> \E i \in 1..Len(d.a) : d.a[i].k = "str" /\ d.a[i].s = key
    [] OTHER -> FALSE
ExistsAllKeys(d, keys) == \A i \in 1..Len(keys) : WellFormed(keys[i]) /\ KeyExists(d, keys[i])
ExistsAnyKeys(d, keys) == \E i \in 1..Len(keys) : WellFormed(keys[i]) /\ KeyExists(d, keys[i])

\* every string anywhere in the document: string values and object keys
RECURSIVE AllStrings(_)
AllStrings(d) ==
  CASE d.k = "str" -> {d.s}
    [] d.k = "arr" -> UNION {AllStrings(d.a[i]) : i \in 1..Len(d.a)}
    [] d.k = "obj" -> UNION {AllStrings(d.o[i][2]) \cup {d.o[i][1]} : i \in 1..Len(d.o)}
    [] OTHER -> {}
\* predicates the harness can apply: [eq |-> bytes] or [has |-> byte]
PredHolds(p, s) == IF "eq" \in DOMAIN p THEN s = p.eq ELSE \E i \in 1..Len(s) : s[i] = p.has
TraverseCheckString(d, p) == \E s \in AllStrings(d) : PredHolds(p, s)

----------------------------------------------------------------------------
(* editors *)
RemAt(s, i) == Sub(s, 1, i - 1) \o Sub(s, i + 1, Len(s))
InsAt(s, i, x) == Sub(s, 1, i - 1) \o <<x>> \o Sub(s, i, Len(s))   \* x becomes s'[i]
Filter(s, P(_)) ==
  LET RECURSIVE Go(_, _)
      Go(i, acc) == IF i > Len(s) THEN acc ELSE Go(i + 1, IF P(s[i]) THEN Append(acc, s[i]) ELSE acc)
  IN Go(1, <<>>)

Concat(x, y) ==
  IF x.k = "obj" /\ y.k = "obj" THEN Obj(MembersOf(y.o, x.o))
  ELSE Arr(ElemsOf(x) \o ElemsOf(y))

DeleteByName(d, name) ==
  CASE d.k = "obj" -> OkD(Obj(Filter(d.o, LAMBDA m : m[1] # name)))
    [] d.k = "arr" -> OkD(Arr(Filter(d.a, LAMBDA e : ~(e.k = "str" /\ e.s = name))))
    [] OTHER -> ErrR("InvalidJsonType")

DeleteByIndex(d, i) ==
  IF d.k # "arr" THEN ErrR("InvalidJsonType")
  ELSE LET p == ResolveIdx(i, Len(d.a)) IN IF p < 0 THEN OkD(d) ELSE OkD(Arr(RemAt(d.a, p + 1)))

RECURSIVE DelKp(_, _)
DelKp(d, kp) ==
  IF kp = <<>> THEN d
  ELSE LET e == Head(kp)
       IN IF d.k = "arr" /\ KpIsIndex(e)
          THEN LET p == ResolveIdx(e.i, Len(d.a))
               IN IF p < 0 THEN d
                  ELSE IF Len(kp) = 1 THEN Arr(RemAt(d.a, p + 1))
                  ELSE Arr([d.a EXCEPT ![p + 1] = DelKp(d.a[p + 1], Tail(kp))])
          ELSE IF d.k = "obj" /\ ~KpIsIndex(e)
          THEN LET i == FindKey(d.o, KpName(e))
               IN IF i = 0 THEN d
                  ELSE IF Len(kp) = 1 THEN Obj(RemAt(d.o, i))
                  ELSE Obj([d.o EXCEPT ![i] = <<d.o[i][1], DelKp(d.o[i][2], Tail(kp))>>])
          ELSE d
DeleteByKeypath(d, kp) == IF IsScalar(d) THEN ErrR("InvalidJsonType") ELSE OkD(DelKp(d, kp))

ArrayInsert(d, pos, new) ==
  LET l == ElemsOf(d)
      raw == IF pos < 0 THEN Len(l) + pos ELSE pos
      idx == IF raw < 0 THEN 0 ELSE IF raw > Len(l) THEN Len(l) ELSE raw
  IN Arr(InsAt(l, idx + 1, new))

ObjectInsert(d, key, new, upd) ==
  IF d.k # "obj" THEN ErrR("InvalidObject")
  ELSE IF FindKey(d.o, key) # 0 /\ ~upd THEN ErrR("ObjectDuplicateKey")
  ELSE OkD(Obj(PutMember(d.o, key, new)))

InKeys(keys, k) == \E i \in 1..Len(keys) : keys[i] = k
ObjectDelete(d, keys) ==
  IF d.k # "obj" THEN ErrR("InvalidObject") ELSE OkD(Obj(Filter(d.o, LAMBDA m : ~InKeys(keys, m[1]))))
ObjectPick(d, keys) ==
  IF d.k # "obj" THEN ErrR("InvalidObject") ELSE OkD(Obj(Filter(d.o, LAMBDA m : InKeys(keys, m[1]))))

RECURSIVE StripNulls(_)
StripNulls(d) ==
  CASE d.k = "arr" -> Arr([i \in 1..Len(d.a) |-> StripNulls(d.a[i])])
    [] d.k = "obj" -> Obj(Filter([i \in 1..Len(d.o) |-> <<d.o[i][1], StripNulls(d.o[i][2])>>],
                                 LAMBDA m : m[2].k # "null"))
    [] OTHER -> d

BuildArray(items) == Arr(items)
BuildObject(keys, items) == ObjOfPairs([i \in 1..Len(keys) |-> <<keys[i], items[i]>>])
=============================================================================
