------------------------------ MODULE NumLemma ------------------------------
(***************************************************************************)
(* Unbounded (all 2^64 patterns) lemmas about the compact integer forms,   *)
(* for Apalache: the width chosen by spec/Num.tla is the least of 1,2,4,8  *)
(* that preserves the value under zero / sign extension.                   *)
(* Bytes are a function 1..8 -> 0..255 (big endian).                       *)
(***************************************************************************)
EXTENDS Integers

VARIABLE
  \* @type: Int -> Int;
  b

\* @type: (Int -> Int, Int) => Bool;
ZerosBefore(f, k) == \A i \in 1..8 : i < k => f[i] = 0
\* @type: (Int -> Int) => Int;
UWidth(f) == IF ZerosBefore(f, 8) THEN 1 ELSE IF ZerosBefore(f, 7) THEN 2 ELSE IF ZerosBefore(f, 5) THEN 4 ELSE 8
\* unsigned w-byte form is value preserving iff the dropped bytes are zero
\* @type: (Int -> Int, Int) => Bool;
UFits(f, w) == ZerosBefore(f, 9 - w)

\* @type: (Int -> Int, Int) => Bool;
IFits(f, w) == LET top == f[9 - w] ext == IF top >= 128 THEN 255 ELSE 0 IN \A i \in 1..8 : i < 9 - w => f[i] = ext
\* @type: (Int -> Int) => Int;
IWidth(f) == IF IFits(f, 1) THEN 1 ELSE IF IFits(f, 2) THEN 2 ELSE IF IFits(f, 4) THEN 4 ELSE 8

Init == b \in [1..8 -> 0..255]
Next == UNCHANGED b

Widths == {1, 2, 4, 8}
\* the chosen width fits and no smaller admissible width does
UShortest == UFits(b, UWidth(b)) /\ \A w \in Widths : w < UWidth(b) => ~UFits(b, w)
IShortest == IFits(b, IWidth(b)) /\ \A w \in Widths : w < IWidth(b) => ~IFits(b, w)
\* monotone: if a width fits, every larger width fits
UMono == \A w \in Widths, v \in Widths : (UFits(b, w) /\ w <= v) => UFits(b, v)
IMono == \A w \in Widths, v \in Widths : (IFits(b, w) /\ w <= v) => IFits(b, v)
Lemma == UShortest /\ IShortest /\ UMono /\ IMono
=============================================================================
