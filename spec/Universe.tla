------------------------------ MODULE Universe -----------------------------
(***************************************************************************)
(* Bounded universes of documents for exhaustive exploration.  The scalar  *)
(* alphabet is chosen so that every payload width occurs (0, 1, 2, 3, 5, 9 *)
(* bytes), the same value occurs in several number encodings, and strings  *)
(* and keys include the empty string, case variants, prefixes, multi-byte  *)
(* and control characters.                                                 *)
(***************************************************************************)
EXTENDS Ops, SequencesExt

B8(a, b, c, d, e, f, g, h) == <<a, b, c, d, e, f, g, h>>
NU(b) == NumD(N("u", b))
NI(b) == NumD(N("i", b))
NF(b) == NumD(N("f", b))

u0 == NU(B8(0,0,0,0,0,0,0,0))          u1 == NU(B8(0,0,0,0,0,0,0,1))
u2 == NU(B8(0,0,0,0,0,0,0,2))          u255 == NU(B8(0,0,0,0,0,0,0,255))
u256 == NU(B8(0,0,0,0,0,0,1,0))        u65535 == NU(B8(0,0,0,0,0,0,255,255))
u65536 == NU(B8(0,0,0,0,0,1,0,0))      u2p32 == NU(B8(0,0,0,1,0,0,0,0))
u2p53 == NU(B8(0,32,0,0,0,0,0,0))      u2p53p1 == NU(B8(0,32,0,0,0,0,0,1))
umax == NU(B8(255,255,255,255,255,255,255,255))
i0 == NI(B8(0,0,0,0,0,0,0,0))          i1 == NI(B8(0,0,0,0,0,0,0,1))
im1 == NI(B8(255,255,255,255,255,255,255,255))
im128 == NI(B8(255,255,255,255,255,255,255,128))
im129 == NI(B8(255,255,255,255,255,255,255,127))
im32769 == NI(B8(255,255,255,255,255,255,127,255))
im2p31m1 == NI(B8(255,255,255,255,127,255,255,255))
imin == NI(B8(128,0,0,0,0,0,0,0))
i2p53p1 == NI(B8(0,32,0,0,0,0,0,1))
f1 == NF(B8(63,240,0,0,0,0,0,0))       f15 == NF(B8(63,248,0,0,0,0,0,0))
fm0 == NF(B8(128,0,0,0,0,0,0,0))       f0 == NF(B8(0,0,0,0,0,0,0,0))
f2p53 == NF(B8(67,64,0,0,0,0,0,0))     fm1 == NF(B8(191,240,0,0,0,0,0,0))
f2p64 == NF(B8(67,240,0,0,0,0,0,0))
ftiny == NF(B8(0,0,0,0,0,0,0,1))        fmtiny == NF(B8(128,16,0,0,0,0,0,0))
fnan == NF(B8(127,248,0,0,0,0,0,0))    finf == NF(B8(127,240,0,0,0,0,0,0))
fninf == NF(B8(255,240,0,0,0,0,0,0))

imax == NI(B8(127,255,255,255,255,255,255,255))
f2p63 == NF(B8(67,224,0,0,0,0,0,0))    fm2p63 == NF(B8(195,224,0,0,0,0,0,0))
u65 == NU(B8(0,0,0,0,0,0,0,65))
\* strings whose bytes are the payload of a number: "PA" = payload of 65 (tag 0x50, byte 65), "\u0000" = payload of 0
sPA == Str(<<80, 65>>)   sNul == Str(<<0>>)
sEmpty == Str(<<>>)      sa == Str(<<97>>)       sA == Str(<<65>>)     sab == Str(<<97, 98>>)
sb == Str(<<98>>)
sE == Str(<<195, 169>>)  sSmile == Str(<<240, 159, 152, 128>>)
sCtl == Str(<<1>>)       sQuote == Str(<<34>>)   sa1 == Str(<<97, 1>>)
sTrue == Str(<<116, 114, 117, 101>>)   s12 == Str(<<49, 50>>)
sNum15 == Str(<<45, 49, 46, 53, 101, 50>>)   sNumBig == Str(<<49, 56, 52, 52, 54, 55, 52, 52, 48, 55, 51, 55, 48, 57, 53, 53, 49, 54, 49, 54>>)

kd0 == <<48>>  kd1 == <<49>>  kdm1 == <<45, 49>>      \* keys that read as integers
sHigh == Str(<<239, 189, 158>>)                      \* U+FF5E: above the surrogates in UTF-16 code units, below U+1F600 in code points and UTF-8
kEmpty == <<>>  ka == <<97>>  kA == <<65>>  kb == <<98>>  kab == <<97, 98>>  kE == <<195, 169>>  kB == <<66>>

----------------------------------------------------------------------------
SeqsUpTo(S, n) == UNION {[1..k -> S] : k \in 0..n}
Arrays(S, n) == {Arr(s) : s \in SeqsUpTo(S, n)}
SortKeys(ks) == SetToSortSeq(ks, LAMBDA a, b : LexCmp(a, b) = -1)
KeySeqs(K, n) == {SortKeys(ks) : ks \in {x \in SUBSET K : Cardinality(x) <= n}}
Objects(K, V, n) ==
  UNION {{Obj([i \in 1..Len(sk) |-> <<sk[i], f[i]>>]) : f \in [1..Len(sk) -> V]} : sk \in KeySeqs(K, n)}

\* scalar alphabets
AtomsTiny == {Null, u1, sa}
AtomsSmall == {Null, True, u0, u1, u256, f15, sEmpty, sab}
AtomsWide == {Null, True, False, u0, u1, i1, f1, u255, u256, u65536, u2p32, im1, im129, im32769, im2p31m1,
              f15, fm0, u2p53, u2p53p1, f2p53, sEmpty, sa, sA, sab, sE, sSmile, sCtl, sQuote}
KeysSmall == {kEmpty, ka, kA, kab, kB, kb}
KeysWide == {kEmpty, ka, kA, kb, kab, kE, kB}
ObjValsSmall == {Null, u1, u256, sab}

\* adjacent siblings that are "twins": equal by value in different encodings (scalars and containers), or
\* of different types with the very same payload bytes
DigitKeyDocs == {Obj(<< <<kdm1, u1>>, <<kd0, sab>>, <<kd1, Arr(<<u1, u2>>)>> >>), Obj(<< <<ka, Obj(<< <<kd1, sa>> >>)>> >>), Arr(<<Obj(<< <<kd0, True>> >>)>>)}
TwinDocs == {Arr(<<Arr(<<u1>>), Arr(<<f1>>)>>), Arr(<<Obj(<< <<ka, f0>> >>), Obj(<< <<ka, fm0>> >>)>>), Arr(<<Arr(<<i1>>), Arr(<<u1>>), sab>>),
             Obj(<< <<ka, Arr(<<Arr(<<f1, u1>>), Arr(<<u1, f1>>)>>)>> >>),
             Arr(<<sPA, u65>>), Arr(<<u65, sPA, u65>>), Arr(<<u0, sNul>>), Arr(<<sNul, u0>>), Arr(<<Null, sEmpty, True, sEmpty>>),
             Obj(<< <<ka, u65>>, <<kb, sPA>> >>)}
\* hand-picked shapes that width-2 enumeration does not reach: a case variant before an unrelated key
\* before the exact key; a longer key sorting before a shorter one; multi-byte keys side by side
kAb == <<65, 98>>   kZed == <<90, 101, 100>>   kEb == <<195, 169, 98>>   kaa == <<97, 97>>
ExtraDocs == {Obj(<< <<kA, u1>>, <<kB, sab>>, <<ka, Null>> >>), Obj(<< <<kAb, u1>>, <<kZed, u256>>, <<kab, sab>> >>),
              Obj(<< <<kaa, u1>>, <<kb, u256>> >>), Obj(<< <<kaa, Arr(<<u1>>)>>, <<kab, Null>>, <<kb, sab>> >>),
              Obj(<< <<kE, Null>>, <<kEb, True>> >>), Obj(<< <<ka, Null>>, <<kE, False>>, <<kEb, sE>> >>),
              Arr(<<u1, f1, i1, u1>>), Arr(<<f0, fm0, u0>>), Arr(<<Arr(<<u1>>), Arr(<<f1>>), Arr(<<u1>>)>>),
              Obj(<< <<ka, Arr(<<u1, u2>>)>>, <<kb, Obj(<< <<ka, sa>> >>)>> >>),
              \* smallest nested containers (one payload-free element; the only string of the document inside them)
              Arr(<<u1, Arr(<<sEmpty>>)>>), Obj(<< <<ka, Arr(<<sEmpty>>)>> >>), Arr(<<Arr(<<Arr(<<sEmpty>>)>>)>>),
              Arr(<<Arr(<<True>>), Obj(<< <<kEmpty, Null>> >>), Arr(<<Null>>)>>), Obj(<< <<kb, Obj(<< <<kEmpty, sEmpty>> >>)>> >>)}
             \cup TwinDocs \cup DigitKeyDocs

\* level-1 documents: containers of atoms
L1(atoms, keys, ovals, w) == Arrays(atoms, w) \cup Objects(keys, ovals, w)
\* a representative set of level-1 documents for nesting
RepL1 == {Arr(<<>>), Obj(<<>>), Arr(<<Null>>), Arr(<<u1, sab>>), Arr(<<u256, Null, f15>>),
          Obj(<< <<ka, Null>> >>), Obj(<< <<kA, u1>>, <<ka, sab>> >>), Obj(<< <<kEmpty, u256>>, <<kab, Null>> >>)}
L2(w) == Arrays(RepL1 \cup AtomsTiny, w) \cup Objects({ka, kb, kEmpty}, RepL1 \cup {Null, u1}, w)

\* a compact mixed universe for pairs and triples
PairDocs ==
  AtomsWide \cup RepL1
  \cup {Arr(<<u1>>), Arr(<<i1>>), Arr(<<f1>>), Arr(<<u1, u1>>), Arr(<<u1, u2>>), Arr(<<u2, u1>>),
        Arr(<<Arr(<<u1>>)>>), Arr(<<Arr(<<u1, u2>>), u1>>), Arr(<<Obj(<< <<ka, u1>> >>)>>),
        Arr(<<sa, sb>>), Arr(<<sa1>>), Arr(<<sa>>), Arr(<<sab>>),
        Obj(<< <<ka, u1>> >>), Obj(<< <<ka, f1>> >>), Obj(<< <<ka, u1>>, <<kb, u2>> >>), Obj(<< <<kb, u2>> >>),
        Obj(<< <<ka, Arr(<<u1, u2>>)>> >>), Obj(<< <<ka, Arr(<<u2>>)>> >>), Obj(<< <<ka, Obj(<< <<kb, Null>> >>)>> >>),
        Obj(<< <<ka, Obj(<<>>)>> >>), Arr(<<Arr(<<>>)>>), Arr(<<Obj(<<>>)>>), Arr(<<Null, Null>>),
        Arr(<<fm0>>), Arr(<<u0>>), Arr(<<u2p53p1>>), Arr(<<f2p53>>), Arr(<<u2p53>>),
        \* adjacent payload-free scalars of different types; longer lists sharing elements in another order
        f0, Arr(<<f0>>), ftiny, fmtiny, Arr(<<ftiny, u1>>), Arr(<<u0, u2>>), Arr(<<fmtiny>>),
        Arr(<<Arr(<<u1, u1, u2>>)>>), Arr(<<Arr(<<u1, u2>>), u2>>), Arr(<<Arr(<<u2, u1>>), Arr(<<u1>>)>>), Arr(<<Obj(<< <<ka, u1>>, <<kb, u2>> >>)>>),
        Obj(<< <<ka, Arr(<<u1, u1, u2>>)>> >>), Obj(<< <<ka, u1>>, <<kb, Arr(<<u2>>)>> >>),
        Arr(<<True>>), Arr(<<True, False>>), Arr(<<False, True>>), Arr(<<Null, sEmpty>>), Arr(<<sEmpty>>), Arr(<<sEmpty, Null, False>>),
        Arr(<<u1, u2, sa>>), Arr(<<sa, u2, u1, u2>>), Arr(<<u2, sa, u1>>), Obj(<< <<ka, True>>, <<kb, False>> >>), Obj(<< <<ka, True>> >>),
        \* the ends of the integer ranges against the floats next to them; payload twins; keys that concatenate alike
        umax, f2p64, imin, fm2p63, imax, f2p63, Arr(<<umax>>), Arr(<<f2p64>>), Arr(<<sPA, u65>>), Arr(<<u65, sPA>>), Arr(<<u65>>), Arr(<<sPA>>),
        Arr(<<u0, sNul>>), Arr(<<sNul>>),
        Obj(<< <<ka, u1>>, <<<<98, 99>>, u2>> >>), Obj(<< <<kab, u1>>, <<<<99>>, u2>> >>),
        \* opposite booleans under one key; a string ordered differently by UTF-16 units, code points
        Obj(<< <<ka, False>> >>), Obj(<< <<ka, False>>, <<kb, True>> >>), sHigh, Arr(<<sHigh>>), Arr(<<sSmile>>), Arr(<<sE>>)}

\* decimal lexemes for the floats of the universes (checked by BigNat!IsRN wherever they are used)
FL == << <<f1.b, <<49, 46, 48>> >>, <<f15.b, <<49, 46, 53>> >>, <<fm0.b, <<45, 48, 46, 48>> >>, <<f0.b, <<48, 46, 48>> >>,
        <<fm1.b, <<45, 49, 46, 48>> >>, <<f2p53.b, <<57, 48, 48, 55, 49, 57, 57, 50, 53, 52, 55, 52, 48, 57, 57, 50, 46, 48>> >>,
        <<f2p64.b, <<49, 46, 56, 52, 52, 54, 55, 52, 52, 48, 55, 51, 55, 48, 57, 53, 53, 50, 101, 49, 57>> >> >>
RECURSIVE HasNonFinite(_)
HasNonFinite(d) ==
  CASE d.k = "num" -> d.r = "f" /\ ~FIsFinite(BytesToBits(d.b))
    [] d.k = "arr" -> \E i \in 1..Len(d.a) : HasNonFinite(d.a[i])
    [] d.k = "obj" -> \E i \in 1..Len(d.o) : HasNonFinite(d.o[i][2])
    [] OTHER -> FALSE

\* structured pairs: the same shape with values that are equal in different encodings or
\* differ in payload width at a non-last position, so that offset bookkeeping matters
PairVals == {u1, i1, f1, u2, sab, Arr(<<u1>>), Arr(<<f1>>), Null}
PairDocs2 == Objects({ka, kb}, PairVals, 2) \cup Arrays(PairVals, 2)
             \cup {Obj(<< <<ka, v>>, <<kb, sab>>, <<kE, w>> >>) : v \in {u1, f1, Arr(<<u1>>), Arr(<<f1>>)}, w \in {u2, sab}}
             \cup {Arr(<<v, sab, w>>) : v \in {u1, f1, Arr(<<u1>>), Arr(<<f1>>)}, w \in {u2, sab}}

----------------------------------------------------------------------------
\* number boundary set: every width boundary of both integer encodings, +-1; the 2^53
\* neighbourhood as integers and floats; 2^63 and 2^64 as floats; IEEE class boundaries
NumU == {B8(0,0,0,0,0,0,0,0), B8(0,0,0,0,0,0,0,1), B8(0,0,0,0,0,0,0,127), B8(0,0,0,0,0,0,0,128),
         B8(0,0,0,0,0,0,0,255), B8(0,0,0,0,0,0,1,0), B8(0,0,0,0,0,0,127,255), B8(0,0,0,0,0,0,128,0),
         B8(0,0,0,0,0,0,255,255), B8(0,0,0,0,0,1,0,0), B8(0,0,0,0,127,255,255,255), B8(0,0,0,0,128,0,0,0),
         B8(0,0,0,0,255,255,255,255), B8(0,0,0,1,0,0,0,0), B8(0,31,255,255,255,255,255,255),
         B8(0,32,0,0,0,0,0,0), B8(0,32,0,0,0,0,0,1), B8(0,32,0,0,0,0,0,2), B8(0,32,0,0,0,0,0,3),
         B8(127,255,255,255,255,255,255,255), B8(128,0,0,0,0,0,0,0), B8(128,0,0,0,0,0,0,1),
         B8(128,0,0,0,0,0,4,0), B8(128,0,0,0,0,0,4,1), B8(128,0,0,0,0,0,12,0),
         B8(255,255,255,255,255,255,251,255), B8(255,255,255,255,255,255,252,0),
         B8(255,255,255,255,255,255,255,255)}
NumI == {B8(0,0,0,0,0,0,0,0), B8(0,0,0,0,0,0,0,1), B8(0,0,0,0,0,0,0,127), B8(0,0,0,0,0,0,0,128),
         B8(0,0,0,0,0,0,127,255), B8(0,0,0,0,0,0,128,0), B8(0,0,0,0,127,255,255,255), B8(0,0,0,0,128,0,0,0),
         B8(0,32,0,0,0,0,0,0), B8(0,32,0,0,0,0,0,1), B8(127,255,255,255,255,255,255,255),
         B8(255,255,255,255,255,255,255,255), B8(255,255,255,255,255,255,255,128), B8(255,255,255,255,255,255,255,127),
         B8(255,255,255,255,255,255,128,0), B8(255,255,255,255,255,255,127,255),
         B8(255,255,255,255,128,0,0,0), B8(255,255,255,255,127,255,255,255),
         B8(255,224,0,0,0,0,0,0), B8(255,223,255,255,255,255,255,255), B8(128,0,0,0,0,0,0,0), B8(128,0,0,0,0,0,0,1)}
NumF == {B8(191,224,0,0,0,0,0,0), B8(63,224,0,0,0,0,0,0), B8(191,248,0,0,0,0,0,0), B8(192,4,0,0,0,0,0,0), B8(64,4,0,0,0,0,0,0),
         B8(188,176,0,0,0,0,0,0), B8(191,239,255,255,255,255,255,255),
         B8(0,0,0,0,0,0,0,0), B8(128,0,0,0,0,0,0,0), B8(0,0,0,0,0,0,0,1), B8(0,15,255,255,255,255,255,255),
         B8(0,16,0,0,0,0,0,0), B8(63,240,0,0,0,0,0,0), B8(191,240,0,0,0,0,0,0), B8(63,248,0,0,0,0,0,0),
         B8(63,239,255,255,255,255,255,255), B8(64,111,224,0,0,0,0,0), B8(64,112,0,0,0,0,0,0),
         B8(67,63,255,255,255,255,255,255), B8(67,64,0,0,0,0,0,0), B8(67,64,0,0,0,0,0,1),
         B8(195,64,0,0,0,0,0,0), B8(195,64,0,0,0,0,0,1),
         B8(67,224,0,0,0,0,0,0), B8(195,224,0,0,0,0,0,0), B8(195,224,0,0,0,0,0,1), B8(67,223,255,255,255,255,255,255),
         B8(67,240,0,0,0,0,0,0), B8(67,239,255,255,255,255,255,255), B8(67,240,0,0,0,0,0,1),
         B8(127,239,255,255,255,255,255,255), B8(255,239,255,255,255,255,255,255),
         B8(127,240,0,0,0,0,0,0), B8(255,240,0,0,0,0,0,0), B8(127,248,0,0,0,0,0,0), B8(255,248,0,0,0,0,0,1),
         B8(127,240,0,0,0,0,0,1)}
NumSet == {N("u", b) : b \in NumU} \cup {N("i", b) : b \in NumI} \cup {N("f", b) : b \in NumF}
\* payloads for the decoder: every tag (and a few non-tags) with every length 0..10
NumPayloads == {<<>>} \cup {<<t>> \o Rep(f, n) : t \in {0, 16, 32, 48, 64, 80, 96, 112, 1, 65, 255}, f \in {0, 128, 255}, n \in (0..18) \cup {31, 32, 33, 64}}
----------------------------------------------------------------------------
(* argument domains derived from the document *)
Flip(b) == IF b >= 65 /\ b <= 90 THEN b + 32 ELSE IF b >= 97 /\ b <= 122 THEN b - 32 ELSE b
FlipCase(s) == [i \in 1..Len(s) |-> Flip(s[i])]
PresentKeys(d) == IF d.k = "obj" THEN {d.o[i][1] : i \in 1..Len(d.o)} ELSE {}
StringElems(d) == IF d.k = "arr" THEN {d.a[i].s : i \in {j \in 1..Len(d.a) : d.a[j].k = "str"}} ELSE {}
NameArgs(d) ==
  LET base == PresentKeys(d) \cup StringElems(d)
  IN {n \in (base \cup {<<195, 137>>, <<195, 169>>} \cup {FlipCase(s) : s \in base} \cup {Sub(s, 1, Len(s) - 1) : s \in {x \in base : Len(x) > 0}}
            \cup {s \o <<98>> : s \in base} \cup {kEmpty, ka}) : WellFormed(n)}
Width1(d) == IF d.k = "arr" THEN Len(d.a) ELSE IF d.k = "obj" THEN Len(d.o) ELSE 1
IndexArgs(d) == (0 - (Width1(d) + 2))..(Width1(d) + 2)

RECURSIVE KPaths(_, _)
\* key paths along the document and one step past it, including kind mismatches
KPaths(d, fuel) ==
  IF fuel = 0 THEN {<<>>}
  ELSE
    {<<>>} \cup
    (CASE d.k = "arr" ->
            UNION {{<<[i |-> i]>> \o p :
                       p \in (IF ResolveIdx(i, Len(d.a)) < 0 THEN {<<>>}
                              ELSE KPaths(d.a[ResolveIdx(i, Len(d.a)) + 1], fuel - 1))}
                   : i \in (0 - (Len(d.a) + 1))..(Len(d.a) + 1)}
            \cup {<<[n |-> ka]>>}
       [] d.k = "obj" ->
            UNION {{<<[n |-> d.o[j][1]]>> \o p : p \in KPaths(d.o[j][2], fuel - 1)} : j \in 1..Len(d.o)}
            \cup UNION {{<<[q |-> d.o[j][1]]>> \o p : p \in KPaths(d.o[j][2], fuel - 1)} : j \in 1..Len(d.o)}
            \cup {<<[n |-> <<122>>]>>, <<[i |-> 0]>>, <<[n |-> <<122>>], [i |-> 0]>>}
            \* an integer element never addresses a member, whatever the member is called
            \cup {<<[i |-> v]>> : v \in {-1, 0, 1}} \cup {<<[i |-> v], [i |-> 0]>> : v \in {-1, 1}}
       [] OTHER -> {<<[i |-> 0]>>, <<[n |-> ka]>>, <<[i |-> -1], [n |-> ka]>>})

KeyLists(d) ==
  LET ks == PresentKeys(d) \cup {<<122>>}
  IN {SortKeys(x) : x \in {y \in SUBSET ks : Cardinality(y) <= 3}}

=============================================================================
