------------------------------ MODULE PathText -----------------------------
(***************************************************************************)
(* The surface syntax of JSONPath and key paths as a renderer from syntax  *)
(* trees to text, with the spelling choices the documented language        *)
(* leaves open: white space at every point between tokens, keyword case    *)
(* for `last` and `to`, bare or quoted names.  A style is a record         *)
(*   [ws |-> 0|1|2, kw |-> 0|1|2, quote |-> BOOLEAN]                      *)
(* The parser under test must map every rendering of a tree back to that   *)
(* tree; the printer's own output must parse back to the tree whenever no  *)
(* name or string needs quoting or escaping.                               *)
(***************************************************************************)
EXTENDS Path, JsonText

A1(c) == <<c>>
WS(st) == CASE st.ws = 0 -> <<>> [] st.ws = 1 -> <<32>> [] OTHER -> <<10, 9, 32>>
\* mandatory separation (between alphanumeric tokens)
SP(st) == IF st.ws = 0 THEN <<32>> ELSE WS(st)
KwLast(st) == CASE st.kw = 0 -> <<108, 97, 115, 116>> [] st.kw = 1 -> <<76, 65, 83, 84>> [] OTHER -> <<76, 97, 115, 116>>
KwTo(st) == CASE st.kw = 0 -> <<116, 111>> [] st.kw = 1 -> <<84, 79>> [] OTHER -> <<116, 79>>

\* decimal text of an Int (TLC integers)
RECURSIVE NatText(_)
NatText(n) == IF n < 10 THEN <<48 + n>> ELSE NatText(n \div 10) \o <<48 + (n % 10)>>
IntTextOf(v) ==
  IF v >= 0 THEN NatText(v)
  ELSE IF v = (0 - 2147483647) - 1 THEN <<45, 50, 49, 52, 55, 52, 56, 51, 54, 52, 56>>
  ELSE <<45>> \o NatText(0 - v)

\* characters that end a bare name in the path language
NameBreak == {32, 44, 46, 58, 123, 125, 91, 93, 40, 41, 63, 64, 36, 124, 60, 62, 33, 61, 43, 45, 42, 47, 37, 34, 39, 92, 9, 10, 13}
IsBareName(n) == Len(n) > 0 /\ WellFormed(n) /\ \A i \in 1..Len(n) : n[i] \notin NameBreak /\ n[i] >= 32
\* a name the printer can write without quoting or escaping and read back
NeedsNoQuoting(n) == IsBareName(n)

\* quoted string with the JSON escapes for quote, backslash and control characters
QuotedText(s) == StrToken(s, 0)
\* ... or with every escape the JSON string syntax offers (\/ \b \f \n \r \t, \uXXXX, surrogate pairs)
QuotedTextE(s, st) == StrToken(s, IF "esc" \in DOMAIN st THEN st.esc ELSE 0)

\* a bare name may itself carry escapes: nesc = 1 writes its first character as \uXXXX, 2 as \u{XXXX}
NameEsc(st) == IF "nesc" \in DOMAIN st THEN st.nesc ELSE 0
EscFirst(n, form) ==
  LET cps == CodePoints(n)
      c == cps[1]
      hex == <<HexDigit(c \div 4096, FALSE), HexDigit((c \div 256) % 16, FALSE), HexDigit((c \div 16) % 16, FALSE), HexDigit(c % 16, FALSE)>>
  IN (IF form = 1 THEN <<92, 117>> \o hex ELSE (<<92, 117, 123>> \o hex) \o <<125>>) \o EncodeCps(Tail(cps))
\* nesc = 3 / 4: the last character as \uXXXX / \u{XXXX} (the escape may be the very end of the input)
EscLast(n, form) ==
  LET cps == CodePoints(n)
      c == cps[Len(cps)]
      hex == <<HexDigit(c \div 4096, FALSE), HexDigit((c \div 256) % 16, FALSE), HexDigit((c \div 16) % 16, FALSE), HexDigit(c % 16, FALSE)>>
  IN EncodeCps(SubSeq(cps, 1, Len(cps) - 1)) \o (IF form = 1 THEN <<92, 117>> \o hex ELSE (<<92, 117, 123>> \o hex) \o <<125>>)
BareText(n, k) ==
  IF k \in {1, 2} /\ CodePoints(n)[1] < 55296 THEN EscFirst(n, k)
  ELSE IF k \in {3, 4} /\ CodePoints(n)[Len(CodePoints(n))] < 55296 THEN EscLast(n, k - 2)
  ELSE n
NameText(n, st) ==
  IF st.quote \/ ~IsBareName(n) THEN QuotedTextE(n, st)
  ELSE BareText(n, NameEsc(st))

IndexText(ix, st) ==
  IF ix.t = "n" THEN IntTextOf(ix.v)
  ELSE IF ix.v = 0 THEN KwLast(st)
  ELSE IF ix.v > 0 THEN ((KwLast(st) \o WS(st)) \o <<43>> \o WS(st)) \o IntTextOf(ix.v)
  ELSE ((KwLast(st) \o WS(st)) \o <<45>> \o WS(st)) \o (IF ix.v = (0 - 2147483647) - 1 THEN <<50, 49, 52, 55, 52, 56, 51, 54, 52, 56>> ELSE NatText(0 - ix.v))
AiText(ai, st) ==
  IF ai.x = "i" THEN IndexText(ai.i, st)
  ELSE ((IndexText(ai.s, st) \o SP(st)) \o KwTo(st) \o SP(st)) \o IndexText(ai.e, st)

RECURSIVE JoinWith(_, _)
JoinWith(ts, sep) == IF Len(ts) = 0 THEN <<>> ELSE IF Len(ts) = 1 THEN ts[1] ELSE (ts[1] \o sep) \o JoinWith(Tail(ts), sep)

\* literal text: numbers by their lexeme table
PvText(v, fl, st) ==
  CASE v.v = "null" -> WNull
    [] v.v = "bool" -> IF v.b = 1 THEN WTrue ELSE WFalse
    [] v.v = "num" -> IF v.r = "f" THEN FloatLexeme(fl, v.b) ELSE IntText([r |-> v.r, b |-> v.b])
    [] v.v = "str" -> QuotedTextE(v.s, st)

OpText(op) ==
  CASE op = "eq" -> <<61, 61>> [] op = "ne" -> <<33, 61>> [] op = "lt" -> <<60>> [] op = "le" -> <<60, 61>>
    [] op = "gt" -> <<62>> [] op = "ge" -> <<62, 61>> [] op = "and" -> <<38, 38>> [] op = "or" -> <<124, 124>>

RECURSIVE StepText(_, _, _), StepsText(_, _, _), ExprText(_, _, _, _)
StepText(s, st, fl) ==
  CASE s.p = "root" -> <<36>>
    [] s.p = "cur" -> <<64>>
    [] s.p = "dotw" -> <<46, 42>>
    [] s.p = "brw" -> (((<<91>> \o WS(st)) \o <<42>>) \o WS(st)) \o <<93>>
    [] s.p = "dot" -> <<46>> \o NameText(s.n, st)
    [] s.p = "colon" -> <<58>> \o NameText(s.n, st)
    [] s.p = "objf" -> (((<<91>> \o WS(st)) \o QuotedTextE(s.n, st)) \o WS(st)) \o <<93>>
    [] s.p = "idx" -> (<<91>> \o JoinWith([i \in 1..Len(s.ix) |-> (WS(st) \o AiText(s.ix[i], st)) \o WS(st)], <<44>>)) \o <<93>>
    [] s.p = "filter" -> ((((<<63>> \o WS(st)) \o <<40>>) \o WS(st)) \o ExprText(s.e, st, fl, 0)) \o WS(st) \o <<41>>
    [] s.p = "pred" -> ExprText(s.e, st, fl, 0)
\* steps separated by optional white space
StepsText(ps, st, fl) == JoinWith([i \in 1..Len(ps) |-> StepText(ps[i], st, fl)], WS(st))

\* level: 0 inside ||, 1 inside &&, 2 operand position; parentheses where the tree needs them
ExprText(e, st, fl, level) ==
  CASE e.e = "paths" -> StepsText(e.ps, st, fl)
    [] e.e = "val" -> PvText(e.v, fl, st)
    [] e.e = "exists" -> ((((<<101, 120, 105, 115, 116, 115>> \o WS(st)) \o <<40>>) \o WS(st)) \o StepsText(e.ps, st, fl)) \o WS(st) \o <<41>>
    [] e.e = "bin" ->
         IF e.op = "or"
         THEN LET body == (((ExprText(e.l, st, fl, 0) \o WS(st)) \o OpText("or")) \o WS(st)) \o ExprText(e.r, st, fl, 1)
              IN IF level > 0 THEN ((<<40>> \o WS(st)) \o body) \o WS(st) \o <<41>> ELSE body
         ELSE IF e.op = "and"
         THEN LET body == (((ExprText(e.l, st, fl, 1) \o WS(st)) \o OpText("and")) \o WS(st)) \o ExprText(e.r, st, fl, 2)
              IN IF level > 1 THEN ((<<40>> \o WS(st)) \o body) \o WS(st) \o <<41>> ELSE body
         ELSE (((ExprText(e.l, st, fl, 2) \o WS(st)) \o OpText(e.op)) \o WS(st)) \o ExprText(e.r, st, fl, 2)

\* a whole path: optional surrounding white space
PathTextOf(ps, st, fl) == (WS(st) \o StepsText(ps, st, fl)) \o WS(st)

\* the tree a left-nested chain denotes: the renderer writes the right operand of && / || at a
\* tighter level, so a right-nested same-operator group is parenthesised and comes back as written
----------------------------------------------------------------------------
(* no name or string in the tree needs quoting or escaping *)
RECURSIVE StepPlain(_), ExprPlain(_)
PlainStr(s) == WellFormed(s) /\ \A i \in 1..Len(s) : s[i] >= 32 /\ s[i] # 34 /\ s[i] # 92
StepPlain(s) ==
  CASE s.p \in {"dot", "colon"} -> NeedsNoQuoting(s.n)
    [] s.p = "objf" -> PlainStr(s.n)
    [] s.p \in {"filter", "pred"} -> ExprPlain(s.e)
    [] OTHER -> TRUE
ExprPlain(e) ==
  CASE e.e = "paths" -> \A i \in 1..Len(e.ps) : StepPlain(e.ps[i])
    [] e.e = "exists" -> \A i \in 1..Len(e.ps) : StepPlain(e.ps[i])
    [] e.e = "val" -> IF e.v.v = "str" THEN PlainStr(e.v.s) ELSE TRUE
    [] e.e = "bin" -> ExprPlain(e.l) /\ ExprPlain(e.r)
    [] OTHER -> TRUE
PathPlain(ps) == \A i \in 1..Len(ps) : StepPlain(ps[i])

----------------------------------------------------------------------------
(* key paths: [i |-> n] | [n |-> bytes] plain name | [q |-> bytes] quoted name *)
KpElemText(e, st) ==
  IF "i" \in DOMAIN e THEN IntTextOf(e.i)
  ELSE IF "q" \in DOMAIN e THEN QuotedTextE(e.q, st)
  ELSE BareText(e.n, NameEsc(st))
KeyPathText(kp, st) ==
  ((WS(st) \o <<123>>) \o (IF Len(kp) = 0 THEN WS(st) ELSE JoinWith([i \in 1..Len(kp) |-> (WS(st) \o KpElemText(kp[i], st)) \o WS(st)], <<44>>)))
  \o <<125>> \o WS(st)
\* a plain key-path name: name characters, not starting with a digit or sign
IsPlainKpName(n) == IsBareName(n) /\ ~(n[1] >= 48 /\ n[1] <= 57) /\ n[1] # 43 /\ n[1] # 45
KpPlain(kp) == \A i \in 1..Len(kp) : ("q" \in DOMAIN kp[i] => PlainStr(kp[i].q))
=============================================================================
