-------------------------------- MODULE Gen --------------------------------
(***************************************************************************)
(* Spec -> implementation: TLC enumerates a bounded universe of documents  *)
(* and, for each, every argument the property quantifies over, and writes  *)
(* one script line per case.  The harness executes the lines against the   *)
(* real crate; Trace.tla judges what came back.  While enumerating, TLC    *)
(* also checks the specification's own laws on every generated case        *)
(* (GenInv), so that the oracle itself is exercised before it is trusted.  *)
(***************************************************************************)
EXTENDS Universe, JsonText, Json, TLC

CONSTANTS Family,   \* which script family to emit
          Width,    \* container width bound
          OpSet,    \* the operations to emit scripts for
          RpSet     \* representations to emit for each document argument: 0 binary, 1..3 text spacings

\* the function-form restatement of the width rules that Apalache proves for all 2^64 patterns (spec/NumLemma.tla)
LEM == INSTANCE NumLemma WITH b <- <<>>

VARIABLES stage, d1, d2, scr
vars == <<stage, d1, d2, scr>>

Nil == [k |-> "nil"]
NoScr == [op |-> "none"]

----------------------------------------------------------------------------
(* argument domains derived from the document: see Universe.tla *)
NewVals == {Null, u256, sab, Arr(<<u1, sab>>), Obj(<< <<ka, Null>> >>), Arr(<<>>)}
Pre == <<7, 7, 7>>

\* strings over every code-point class, in values and in keys, up to three levels down;
\* every finite number of the boundary set; layouts with empty containers at every level
CtlStrings == {<<c>> : c \in 0..31} \cup {<<97, c, 98>> : c \in {0, 1, 8, 9, 10, 12, 13, 27, 31}}
ClassStrings == CtlStrings \cup {<<>>, <<97>>, <<34>>, <<92>>, <<47>>, <<127>>, <<92, 110>>, <<92, 117, 68, 56, 48, 48>>,
                                 <<195, 169>>, <<226, 128, 168>>, <<226, 128, 169>>, <<240, 159, 152, 128>>, <<239, 191, 189>>,
                                 <<34, 92, 34>>, <<97, 34, 10, 240, 159, 152, 128, 92>>, <<32>>, <<123, 125>>, <<91, 44, 93>>}
FiniteNums == {n \in NumSet : IsFiniteNum(n)}
RenderDocs ==
  {Str(s) : s \in ClassStrings}
  \cup {Arr(<<Str(s), Null>>) : s \in ClassStrings}
  \cup {Obj(<< <<s, Str(s)>> >>) : s \in ClassStrings}
  \cup {Arr(<<Obj(<< <<s, Arr(<<Str(s), u1>>)>> >>)>>) : s \in ClassStrings}
  \cup {NumD(n) : n \in FiniteNums} \cup {Arr(<<NumD(n), NumD(n)>>) : n \in FiniteNums}
  \cup {Obj(<< <<ka, NumD(n)>> >>) : n \in FiniteNums}
  \cup RepL1 \cup L2(2) \cup {Arr(<<Arr(<<Arr(<<>>)>>)>>), Obj(<< <<ka, Obj(<< <<kb, Obj(<<>>)>> >>)>> >>), Null, True, False}
  \cup TwinDocs


----------------------------------------------------------------------------
(* universes per family *)
Docs1 ==
  CASE Family \in {"codec"} -> AtomsWide \cup L1(AtomsSmall, KeysSmall, ObjValsSmall, Width) \cup L2(2) \cup ExtraDocs
    [] Family \in {"acc", "edit"} -> AtomsSmall \cup {sTrue, s12, sNum15, sNumBig, i1, im1, f1, f2p53, fm0, u2p53p1, umax, imin} \cup ExtraDocs
                                       \cup L1(AtomsSmall, KeysSmall, ObjValsSmall, Width) \cup L2(2)
    [] Family \in {"acc11", "edit11"} -> AtomsSmall \cup {sTrue, s12, im1, f1, fm0, u2p53p1, sE, sSmile, sCtl, sQuote} \cup RepL1 \cup ExtraDocs
                                         \cup {Arr(<<u256, Null, f15>>), Arr(<<Arr(<<u1, sab>>), Obj(<< <<ka, Null>> >>)>>),
                                               Obj(<< <<kB, u1>>, <<ka, Arr(<<sE, f15>>)>> >>), Obj(<< <<kE, Obj(<< <<kab, Null>>, <<kb, sQuote>> >>)>> >>)}
    [] Family \in {"pairs11"} -> {Null, True, u1, i1, f1, fm0, u0, sa, sab, Str(<<97, 32, 98>>), Str(<<97, 33>>), s12, sE, u2p53p1, f2p53, u2p53, Arr(<<u2p53p1>>), Arr(<<f2p53>>), Arr(<<u2p53>>), Arr(<<sPA, u65>>), Arr(<<u65>>)} \cup RepL1
                                   \cup {Arr(<<u1>>), Arr(<<f1>>), Arr(<<u1, u1, sab>>), Obj(<< <<ka, u1>>, <<kb, Arr(<<f15>>)>> >>), Obj(<< <<ka, f1>> >>),
                                         Obj(<< <<ka, Arr(<<u1, u2>>)>> >>), Obj(<< <<ka, u1>> >>), Obj(<< <<ka, u2>>, <<kb, Null>> >>), Arr(<<u1, f1, u2>>),
                                         Arr(<<Arr(<<u1, u2>>), u2>>), Arr(<<Arr(<<u1, u1, u2>>)>>)}
    [] Family \in {"render"} -> RenderDocs
    [] Family \in {"pairs"} -> PairDocs
    [] Family \in {"extreme"} -> {Null, u1, Arr(<<>>), Arr(<<u1>>), Arr(<<u1, sab, Null>>), Obj(<<>>), Obj(<< <<ka, Arr(<<u1, u2>>)>> >>),
                                   Arr(<<Arr(<<u1, u2, u256>>), Obj(<< <<ka, Null>> >>)>>)}
    [] Family \in {"pairs2"} -> PairDocs2
    [] Family \in {"num", "numpairs"} -> {NumD(n) : n \in NumSet}
    [] Family \in {"build"} -> {Null, u1, u256, sab, Arr(<<u1, sab>>), Obj(<< <<ka, Null>> >>), Arr(<<>>), Obj(<<>>)}
    [] OTHER -> {Null}
NeedsSecond == Family \in {"pairs", "pairs2", "numpairs", "pairs11"}
Docs2 == IF Family = "pairs" THEN PairDocs ELSE IF Family = "pairs11" THEN Docs1 ELSE IF Family = "pairs2" THEN PairDocs2 ELSE IF Family = "numpairs" THEN {NumD(n) : n \in NumSet} ELSE {Nil}

S1(op, d, a) == [op |-> op, d |-> <<d>>, a |-> a]
S2(op, x, y, a) == [op |-> op, d |-> <<x, y>>, a |-> a]
NoArg == [z |-> 0]

\* one script line: record it in the state and write it out
RpVectors(s) ==
  IF "d" \notin DOMAIN s \/ RpSet = {0} \/ s.op \in {"to_vec", "roundtrip", "render", "build_array", "build_object", "comparable_all", "value_api"} THEN {<<>>}
  ELSE {v \in [1..Len(s.d) -> RpSet] : \A i \in 1..Len(s.d) : v[i] # 0 => ~HasNonFinite(s.d[i])}
WithRp(s, v) == IF v = <<>> THEN s ELSE [rp |-> v, fl |-> FL] @@ s
Out(s) ==
  /\ s.op \in OpSet
  /\ \E v \in RpVectors(s) : scr' = WithRp(s, v) /\ PrintT(ToJson(WithRp(s, v)))
  /\ stage' = "script" /\ UNCHANGED <<d1, d2>>

EmitCodec(x) ==
  \/ Out(S1("roundtrip", x, NoArg))
  \/ Out(S1("to_vec", x, [pre |-> Pre]))
  \/ Out(S1("to_vec", x, [pre |-> <<>>]))

EmitAcc(x) ==
  \/ \E i \in 0..(Width1(x) + 1) : Out(S1("get_by_index", x, [i |-> i]))
  \/ \E n \in NameArgs(x), c \in {0, 1} : Out(S1("get_by_name", x, [n |-> n, ic |-> c]))
  \/ \E p \in KPaths(x, Depth(x) + 1) : Out(S1("get_by_keypath", x, [kp |-> p]))
  \/ \E o \in {"array_length", "object_keys", "object_each", "array_values", "type_of", "casts", "to_string", "to_pretty_string", "lazy"} : Out(S1(o, x, NoArg))
  \/ \E ks \in KeyLists(x) \cup {<<n>> : n \in NameArgs(x)} \cup {<<ka, <<195>>>>, <<<<255>>, ka>>, <<<<195, 40>>>>}
               \cup {<<n, n>> : n \in PresentKeys(x) \cup StringElems(x)} \cup {<<n, <<122>>, n, n>> : n \in PresentKeys(x)}, c \in {0, 1} :
        Out(S1("exists_keys", x, [keys |-> ks, all |-> c]))
  \/ \E n \in NameArgs(x) : Out(S1("traverse", x, [pred |-> [eq |-> n]]))
  \/ \E b \in {97, 98, 0} : Out(S1("traverse", x, [pred |-> [has |-> b]]))
  \/ \E n \in NameArgs(x) : Out(S1("value_api", x, [n |-> n]))
  \/ (~HasNonFinite(x) /\ Out([fl |-> FL] @@ S1("comparable_all", x, NoArg)))

EmitEdit(x) ==
  \/ \E n \in NameArgs(x) : Out(S1("delete_by_name", x, [n |-> n, pre |-> Pre]))
  \/ \E i \in IndexArgs(x) : Out(S1("delete_by_index", x, [i |-> i, pre |-> Pre]))
  \/ \E p \in KPaths(x, Depth(x) + 1) : Out(S1("delete_by_keypath", x, [kp |-> p, pre |-> Pre]))
  \/ \E o \in {"strip_nulls", "array_distinct"} : Out(S1(o, x, [pre |-> Pre]))
  \/ \E o \in {"object_delete", "object_pick"}, ks \in KeyLists(x) : Out(S1(o, x, [keys |-> ks, pre |-> Pre]))
  \/ \E v \in NewVals, p \in IndexArgs(x) : Out(S2("array_insert", x, v, [pos |-> p, pre |-> Pre]))
  \/ \E v \in {Null, u256, Arr(<<u1, sab>>)}, n \in PresentKeys(x) \cup {kEmpty, ka, <<122>>}, u \in {0, 1} :
        Out(S2("object_insert", x, v, [n |-> n, upd |-> u, pre |-> Pre]))

EmitPairs(x, y) ==
  \/ \E o \in {"compare", "contains", "array_overlap", "comparable2", "value_api"} : Out(S2(o, x, y, NoArg))
  \/ \E o \in {"concat", "array_intersection", "array_except"} : Out(S2(o, x, y, [pre |-> Pre]))

EmitRender(x) ==
  \/ Out(S1("render", x, NoArg))
  \/ Out(S1("serde", x, NoArg))

IntMaxG == 2147483647
IntMinG == (0 - 2147483647) - 1
ExtremeIdx(x) == {IntMinG, IntMinG + 1, 0 - (Width1(x) + 1), 0 - Width1(x), -1, 0, Width1(x) - 1, Width1(x), Width1(x) + 1, IntMaxG - 1, IntMaxG}
EmitExtreme(x) ==
  \/ \E i \in ExtremeIdx(x) : Out(S1("delete_by_index", x, [i |-> i, pre |-> Pre]))
  \/ \E i \in ExtremeIdx(x), v \in {Null, Arr(<<u1>>)} : Out(S2("array_insert", x, v, [pos |-> i, pre |-> Pre]))
  \/ \E i \in ExtremeIdx(x) : Out(S1("get_by_keypath", x, [kp |-> <<[i |-> i]>>])) \/ Out(S1("get_by_keypath", x, [kp |-> <<[i |-> 0], [i |-> i]>>]))
                               \/ Out(S1("get_by_keypath", x, [kp |-> <<[n |-> ka], [i |-> i]>>]))
  \/ \E i \in ExtremeIdx(x) : Out(S1("delete_by_keypath", x, [kp |-> <<[i |-> i]>>, pre |-> Pre])) \/ Out(S1("delete_by_keypath", x, [kp |-> <<[i |-> 0], [i |-> i]>>, pre |-> Pre]))
                               \/ Out(S1("delete_by_keypath", x, [kp |-> <<[n |-> ka], [i |-> i]>>, pre |-> Pre]))
  \/ \E i \in {0, 1, IntMaxG - 1, IntMaxG} : Out(S1("get_by_index", x, [i |-> i]))

EmitNum(x) ==
  \/ Out([op |-> "num", a |-> [n |-> NumOf(x)]])
  \/ Out(S1("roundtrip", x, NoArg))
  \/ Out(S1("casts", x, NoArg))
EmitNumPairs(x, y) == Out([op |-> "num_cmp", a |-> [x |-> NumOf(x), y |-> NumOf(y)]])
\* exhaustive 16-bit sweeps: every unsigned and signed 16-bit integer (all of the 1- and 2-byte forms and
\* the boundary into the 4-byte form), and every binary64 whose low 48 bits are zero (every sign, every
\* exponent, NaN / infinity patterns, the top four mantissa bits)
Sweep16 ==
  \E hi \in 0..255, lo \in 0..255 :
     \/ Out([op |-> "num", a |-> [n |-> N("u", <<0, 0, 0, 0, 0, 0, hi, lo>>)]])
     \/ Out([op |-> "num", a |-> [n |-> N("i", <<IF hi >= 128 THEN 255 ELSE 0, IF hi >= 128 THEN 255 ELSE 0, IF hi >= 128 THEN 255 ELSE 0,
                                                  IF hi >= 128 THEN 255 ELSE 0, IF hi >= 128 THEN 255 ELSE 0, IF hi >= 128 THEN 255 ELSE 0, hi, lo>>)]])
     \/ Out([op |-> "num", a |-> [n |-> N("f", <<hi, lo, 0, 0, 0, 0, 0, 0>>)]])
     \/ Out([op |-> "num_cmp", a |-> [x |-> N("f", <<hi, lo, 0, 0, 0, 0, 0, 0>>), y |-> N("i", <<255, 255, 255, 255, 255, 255, 255 - (hi \div 2), lo>>)]])
     \/ Out([op |-> "num_cmp", a |-> [x |-> N("u", <<0, 0, 0, 0, 0, 0, hi, lo>>), y |-> N("f", <<64 + (hi \div 64), (hi * 4) % 256, lo, 0, 0, 0, 0, 0>>)]])
EmitNumDecode == \E p \in NumPayloads : Out([op |-> "num_decode", raw |-> <<p>>, a |-> NoArg])

\* From conversions into Value: signed -> i, unsigned -> u, f32 widened exactly, unit -> null,
\* iterators -> arrays / objects (keys sorted, last duplicate wins)
SmallI(v) == \* 8 bytes two's complement of a small Int
  IF v >= 0 THEN <<0, 0, 0, 0, v \div 16777216, (v \div 65536) % 256, (v \div 256) % 256, v % 256>>
  ELSE LET m == 0 - (v + 1)
       IN <<255, 255, 255, 255, 255 - (m \div 16777216), 255 - ((m \div 65536) % 256), 255 - ((m \div 256) % 256), 255 - (m % 256)>>
ConvCases ==
  {[k |-> "i8", v |-> x, want |-> NumD(N("i", SmallI(x)))] : x \in {-128, -1, 0, 1, 127}}
  \cup {[k |-> "i16", v |-> x, want |-> NumD(N("i", SmallI(x)))] : x \in {-32768, -129, 128, 32767}}
  \cup {[k |-> "i32", v |-> x, want |-> NumD(N("i", SmallI(x)))] : x \in {(0 - 2147483647) - 1, -32769, 0, 32768, 2147483647}}
  \cup {[k |-> "i64", v |-> x, want |-> NumD(N("i", SmallI(x)))] : x \in {-1, 0, 2147483647}}
  \cup {[k |-> "u8", v |-> x, want |-> NumD(N("u", SmallI(x)))] : x \in {0, 1, 255}}
  \cup {[k |-> "u16", v |-> x, want |-> NumD(N("u", SmallI(x)))] : x \in {256, 65535}}
  \cup {[k |-> "u32", v |-> x, want |-> NumD(N("u", SmallI(x)))] : x \in {65536, 2147483647}}
  \cup {[k |-> "u64", v |-> x, want |-> NumD(N("u", SmallI(x)))] : x \in {0, 2147483647}}
  \cup {[k |-> "f32", v |-> 1069547520, want |-> f15], [k |-> "f32", v |-> 1065353216, want |-> f1], [k |-> "f32", v |-> 0, want |-> f0]}
  \cup {[k |-> "bool", v |-> 1, want |-> True], [k |-> "bool", v |-> 0, want |-> False], [k |-> "unit", v |-> 0, want |-> Null]}
  \cup {[k |-> "str", v |-> s, want |-> Str(s)] : s \in {<<>>, <<97, 98>>, <<195, 169>>}}
  \cup {[k |-> "vec_i32", v |-> <<>>, want |-> Arr(<<>>)], [k |-> "vec_i32", v |-> <<1, -1>>, want |-> Arr(<<i1, im1>>)]}
  \cup {[k |-> "iter_str", v |-> <<ka, kab>>, want |-> Arr(<<sa, sab>>)]}
  \cup {[k |-> "pairs", v |-> << <<kb, 1>>, <<ka, -1>>, <<kb, 1>> >>, want |-> Obj(<< <<ka, im1>>, <<kb, i1>> >>)]}
EmitConv == \E c \in ConvCases : Out([op |-> "from_conv", a |-> [conv |-> [k |-> c.k, v |-> c.v], want |-> c.want]])

\* lists of parts for the builders: every short list, in every order, with duplicate keys
BuildParts == {Null, u256, sab, Arr(<<u1, sab>>), Obj(<< <<ka, Null>> >>)}
EmitBuildScripts ==
  \/ \E s \in SeqsUpTo(Docs1, 2) : Out([op |-> "build_array", d |-> s, a |-> [pre |-> Pre]])
  \/ Out([op |-> "build_array", d |-> <<Null, u256, Arr(<<u1, sab>>)>>, a |-> [pre |-> Pre]])
  \/ \E s \in SeqsUpTo(BuildParts, 3) : \E ks \in [1..Len(s) -> {ka, kb, kEmpty}] :
        Out([op |-> "build_object", d |-> s, a |-> [keys |-> ks, pre |-> Pre]])

----------------------------------------------------------------------------
Init == stage = "start" /\ d1 = Nil /\ d2 = Nil /\ scr = NoScr

PickFirst ==
  /\ stage = "start" /\ Family # "build"
  /\ d1' \in Docs1
  /\ stage' = IF NeedsSecond THEN "one" ELSE "docs"
  /\ UNCHANGED <<d2, scr>>
PickSecond ==
  /\ stage = "one"
  /\ d2' \in Docs2
  /\ stage' = "docs"
  /\ UNCHANGED <<d1, scr>>
Emit ==
  /\ stage = "docs"
  /\ CASE Family = "codec" -> EmitCodec(d1)
       [] Family \in {"acc", "acc11"} -> EmitAcc(d1)
       [] Family \in {"edit", "edit11"} -> EmitEdit(d1)
       [] Family \in {"pairs", "pairs2", "pairs11"} -> EmitPairs(d1, d2)
       [] Family = "render" -> EmitRender(d1)
       [] Family = "extreme" -> EmitExtreme(d1)
       [] Family = "num" -> EmitNum(d1)
       [] Family = "numpairs" -> EmitNumPairs(d1, d2)
       [] OTHER -> FALSE
EmitBuild ==
  /\ stage = "start" /\ Family = "build"
  /\ EmitBuildScripts
EmitDecode == (stage = "start" /\ Family = "num" /\ EmitNumDecode) \/ (stage = "start" /\ Family = "sweep16" /\ Sweep16) \/ (stage = "start" /\ Family = "codec" /\ EmitConv)
Next == PickFirst \/ PickSecond \/ Emit \/ EmitBuild \/ EmitDecode
Spec == Init /\ [][Next]_vars

----------------------------------------------------------------------------
(* laws of the specification itself, checked on every generated case *)
DocOk(d) == IsDoc(d) /\ Decode(Encode(d)) = Canon(d) /\ IsCanonical(Encode(d))
ResOk(r) == r.t = "err" \/ DocOk(r.v)
OptOk(o) == o.t = "none" \/ DocOk(o.v)

GenInv ==
  stage = "script" =>
    LET op == scr.op
        a == scr.a
        x == IF "d" \in DOMAIN scr THEN scr.d[1] ELSE Nil
        y == IF "d" \in DOMAIN scr /\ Len(scr.d) >= 2 THEN scr.d[2] ELSE Nil
    IN CASE op \in {"roundtrip", "to_vec"} -> DocOk(x) /\ Encode(Canon(x)) = Encode(x)
         [] op = "get_by_index" -> OptOk(GetByIndex(x, a.i))
         [] op = "get_by_name" -> OptOk(GetByName(x, a.n, a.ic = 1))
                                  /\ (GetByName(x, a.n, FALSE).t = "some" => GetByName(x, a.n, TRUE) = GetByName(x, a.n, FALSE))
         [] op = "get_by_keypath" -> OptOk(GetByKeypath(x, a.kp))
         [] op = "delete_by_name" -> ResOk(DeleteByName(x, a.n))
         [] op = "delete_by_index" -> ResOk(DeleteByIndex(x, a.i))
         [] op = "delete_by_keypath" ->
              /\ ResOk(DeleteByKeypath(x, a.kp))
              \* deleting what the path designates makes the path dangle; a dangling path is a no-op
              /\ (IsContainer(x) /\ a.kp # <<>> /\ GetByKeypath(x, a.kp).t = "none" => DelKp(x, a.kp) = x)
         [] op = "strip_nulls" -> DocOk(StripNulls(x)) /\ StripNulls(StripNulls(x)) = StripNulls(x)
         [] op = "array_distinct" -> DocOk(ArrayDistinct(x)) /\ ArrayDistinct(ArrayDistinct(x)) = ArrayDistinct(x)
         [] op = "object_delete" -> ResOk(ObjectDelete(x, a.keys))
         [] op = "object_pick" -> ResOk(ObjectPick(x, a.keys))
         [] op = "array_insert" -> DocOk(ArrayInsert(x, a.pos, y)) /\ Len(ArrayInsert(x, a.pos, y).a) = Len(ElemsOf(x)) + 1
         [] op = "object_insert" -> ResOk(ObjectInsert(x, a.n, y, a.upd = 1))
         [] op = "compare" -> Cmp(x, y) = 0 - Cmp(y, x) /\ (Cmp(x, y) = 0 <=> DocEq(x, y)) /\ Cmp(x, x) = 0
         [] op = "contains" -> DocContains(x, x) /\ (Cmp(x, y) = 0 => DocContains(x, y))
         [] op = "concat" -> DocOk(Concat(x, y))
         [] op = "array_intersection" ->
              LET i == ArrayIntersection(x, y)  e == ArrayExcept(x, y)
              IN DocOk(i) /\ DocOk(e) /\ Len(i.a) + Len(e.a) = Len(ElemsOf(x))
                 /\ (ArrayOverlap(x, y) <=> Len(i.a) > 0)
                 /\ \A z \in {ElemsOf(x)[j] : j \in 1..Len(ElemsOf(x))} :
                       CountIn(z, i.a) + CountIn(z, e.a) = CountIn(z, ElemsOf(x))
         [] op = "num" ->
              LET n == a.n
              IN /\ DecodeClass(Compact(n)) = "ok" /\ DecodeNum(Compact(n)) = CanonNum(n)
                 /\ Len(Compact(n)) \in {1, 2, 3, 5, 9}
                 \* Num.tla's width rules are the ones the unbounded lemma is about
                 /\ (n.r = "u" => UWidth(n.b) = LEM!UWidth(n.b)) /\ (n.r = "i" => IWidth(n.b) = LEM!IWidth(n.b))
                 \* shortest: no narrower integer form holds the value
                 /\ (n.r = "u" /\ Len(Compact(n)) > 2 => ~AllZero(Sub(n.b, 1, 9 - ((Len(Compact(n)) - 1) \div 2) - 1)))
                 /\ NumCmp(n, n) = 0
                 /\ (AsI64(n) # <<>> => NumCmp(N("i", AsI64(n)[1]), n) = 0)
                 /\ (AsU64(n) # <<>> => NumCmp(N("u", AsU64(n)[1]), n) = 0)
         [] op = "num_cmp" ->
              /\ NumCmp(a.x, a.y) = 0 - NumCmp(a.y, a.x)
              /\ (NumCmp(a.x, a.y) = 0 /\ a.x.r = a.y.r /\ ~IsNaN(a.x) /\ Sign(a.x) # 0 => a.x.b = a.y.b)
              \* the nearest double never reverses the order
              /\ (IsFiniteNum(a.x) /\ IsFiniteNum(a.y) /\ NumCmp(a.x, a.y) <= 0 => NumCmp(N("f", AsF64(a.x)), N("f", AsF64(a.y))) <= 0)
         [] op = "from_conv" -> DocOk(a.want)
         [] op = "build_array" -> DocOk(BuildArray(scr.d))
         [] op = "build_object" -> DocOk(BuildObject(a.keys, scr.d))
         [] OTHER -> TRUE
=============================================================================
