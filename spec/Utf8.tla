-------------------------------- MODULE Utf8 -------------------------------
(***************************************************************************)
(* UTF-8 well-formedness (Unicode Table 3-7), code points <-> bytes, and   *)
(* UTF-16 surrogate arithmetic.  Code points fit TLC integers.             *)
(***************************************************************************)
EXTENDS Bytes

InR(x, lo, hi) == x >= lo /\ x <= hi
Cont(x) == InR(x, 128, 191)

\* length of the well-formed scalar value encoding starting at s[i], or 0
SeqLenAt(s, i) ==
  LET n == Len(s)
      b0 == s[i]
      B(j) == IF i + j <= n THEN s[i + j] ELSE -1
  IN IF b0 <= 127 THEN 1
     ELSE IF InR(b0, 194, 223) THEN (IF Cont(B(1)) THEN 2 ELSE 0)
     ELSE IF b0 = 224 THEN (IF InR(B(1), 160, 191) /\ Cont(B(2)) THEN 3 ELSE 0)
     ELSE IF InR(b0, 225, 236) \/ InR(b0, 238, 239) THEN (IF Cont(B(1)) /\ Cont(B(2)) THEN 3 ELSE 0)
     ELSE IF b0 = 237 THEN (IF InR(B(1), 128, 159) /\ Cont(B(2)) THEN 3 ELSE 0)
     ELSE IF b0 = 240 THEN (IF InR(B(1), 144, 191) /\ Cont(B(2)) /\ Cont(B(3)) THEN 4 ELSE 0)
     ELSE IF InR(b0, 241, 243) THEN (IF Cont(B(1)) /\ Cont(B(2)) /\ Cont(B(3)) THEN 4 ELSE 0)
     ELSE IF b0 = 244 THEN (IF InR(B(1), 128, 143) /\ Cont(B(2)) /\ Cont(B(3)) THEN 4 ELSE 0)
     ELSE 0

RECURSIVE WellFormedFrom(_, _)
WellFormedFrom(s, i) ==
  IF i > Len(s) THEN TRUE
  ELSE LET l == SeqLenAt(s, i) IN l > 0 /\ WellFormedFrom(s, i + l)
WellFormed(s) == WellFormedFrom(s, 1)

\* code point of the well-formed sequence of length l at s[i]
CpAt(s, i, l) ==
  CASE l = 1 -> s[i]
    [] l = 2 -> ((s[i] % 32) * 64) + (s[i + 1] % 64)
    [] l = 3 -> ((s[i] % 16) * 4096) + ((s[i + 1] % 64) * 64) + (s[i + 2] % 64)
    [] l = 4 -> ((s[i] % 8) * 262144) + ((s[i + 1] % 64) * 4096) + ((s[i + 2] % 64) * 64) + (s[i + 3] % 64)

RECURSIVE CodePointsFrom(_, _)
CodePointsFrom(s, i) ==
  IF i > Len(s) THEN <<>>
  ELSE LET l == SeqLenAt(s, i) IN <<CpAt(s, i, l)>> \o CodePointsFrom(s, i + l)
\* defined for well-formed s
CodePoints(s) == CodePointsFrom(s, 1)

EncodeCp(c) ==
  IF c < 128 THEN <<c>>
  ELSE IF c < 2048 THEN <<192 + (c \div 64), 128 + (c % 64)>>
  ELSE IF c < 65536 THEN <<224 + (c \div 4096), 128 + ((c \div 64) % 64), 128 + (c % 64)>>
  ELSE <<240 + (c \div 262144), 128 + ((c \div 4096) % 64), 128 + ((c \div 64) % 64), 128 + (c % 64)>>

EncodeCps(cs) == Flat([i \in 1..Len(cs) |-> EncodeCp(cs[i])])

IsHighSurrogate(u) == InR(u, 55296, 56319)
IsLowSurrogate(u) == InR(u, 56320, 57343)
IsSurrogate(u) == InR(u, 55296, 57343)
Combine(hi, lo) == 65536 + ((hi - 55296) * 1024) + (lo - 56320)
=============================================================================
