------------------------------- MODULE Jsonb -------------------------------
(***************************************************************************)
(* The JSONB wire layout, transcribed from the README:                     *)
(*   container header  = 3-bit kind (array 100, object 010, scalar 001) +  *)
(*                       29-bit entry count                                *)
(*   entry word        = 1 bit (offset flag, unused) + 3-bit type + 28-bit *)
(*                       payload length                                    *)
(*   array             = header, n entry words, n payloads                 *)
(*   object            = header, n key entry words, n value entry words,   *)
(*                       n key payloads, n value payloads; keys sorted and *)
(*                       unique                                            *)
(*   scalar (root only)= header (count 0), one entry word, one payload     *)
(* Encode is the independent encoder; Decode is a strict reader used for   *)
(* the laws (exact lengths, nothing trailing, well-formed strings).        *)
(***************************************************************************)
EXTENDS Doc, Utf8

KArr == 128   KObj == 64   KScalar == 32
TNull == 0  TStr == 16  TNum == 32  TFalse == 48  TTrue == 64  TCont == 80

RECURSIVE EntryOf(_), EncBody(_)
\* <<entry type byte, payload>>
EntryOf(d) ==
  CASE d.k = "null"  -> <<TNull, <<>>>>
    [] d.k = "str"   -> <<TStr, d.s>>
    [] d.k = "num"   -> <<TNum, Compact(NumOf(d))>>
    [] d.k = "false" -> <<TFalse, <<>>>>
    [] d.k = "true"  -> <<TTrue, <<>>>>
    [] OTHER         -> <<TCont, EncBody(d)>>

EncBody(d) ==
  IF d.k = "arr"
  THEN LET n == Len(d.a)
           es == [i \in 1..n |-> EntryOf(d.a[i])]
       IN Word(KArr, n)
          \o Flat([i \in 1..n |-> Word(es[i][1], Len(es[i][2]))])
          \o Flat([i \in 1..n |-> es[i][2]])
  ELSE LET n == Len(d.o)
           es == [i \in 1..n |-> EntryOf(d.o[i][2])]
       IN Word(KObj, n)
          \o Flat([i \in 1..n |-> Word(TStr, Len(d.o[i][1]))])
          \o Flat([i \in 1..n |-> Word(es[i][1], Len(es[i][2]))])
          \o Flat([i \in 1..n |-> d.o[i][1]])
          \o Flat([i \in 1..n |-> es[i][2]])

Encode(d) ==
  IF IsContainer(d) THEN EncBody(d)
  ELSE LET e == EntryOf(d) IN Word(KScalar, 0) \o Word(e[1], Len(e[2])) \o e[2]

----------------------------------------------------------------------------
Err == [k |-> "ERR"]

W24(bs, i) == (bs[i + 1] * 65536) + (bs[i + 2] * 256) + bs[i + 3]
HdrKind(bs, i) == (bs[i] \div 32) * 32                    \* top three bits
HdrCount(bs, i) == ((bs[i] % 32) * 16777216) + W24(bs, i)  \* 29 bits (< 2^29 fits)
EntType(bs, i) == ((bs[i] \div 16) % 8) * 16              \* bits 30..28
EntLen(bs, i) == ((bs[i] % 16) * 16777216) + W24(bs, i)    \* 28 bits

\* running offsets: Starts(lens, base)[i] = base + sum of lens[1..i-1]
RECURSIVE PrefixSums(_, _)
PrefixSums(lens, base) ==
  IF lens = <<>> THEN <<>> ELSE <<base>> \o PrefixSums(Tail(lens), base + Head(lens))

RECURSIVE DecBody(_), DecEntry(_, _)
DecEntry(t, p) ==
  CASE t = TNull  -> IF p = <<>> THEN Null ELSE Err
    [] t = TFalse -> IF p = <<>> THEN False ELSE Err
    [] t = TTrue  -> IF p = <<>> THEN True ELSE Err
    [] t = TStr   -> IF WellFormed(p) THEN Str(Tup(p)) ELSE Err
    [] t = TNum   -> IF DecodeClass(p) = "ok" THEN NumD(DecodeNum(p)) ELSE Err
    [] t = TCont  -> IF Len(p) >= 4 /\ HdrKind(p, 1) \in {KArr, KObj} THEN DecBody(p) ELSE Err
    [] OTHER      -> Err

\* strict: bs must be exactly one container
DecBody(bs) ==
  IF Len(bs) < 4 THEN Err
  ELSE
    LET kind == HdrKind(bs, 1)
        n == HdrCount(bs, 1)
    IN IF kind = KArr
       THEN IF Len(bs) < 4 + (4 * n) THEN Err
            ELSE LET ts == [i \in 1..n |-> EntType(bs, 1 + (4 * i))]
                     ls == [i \in 1..n |-> EntLen(bs, 1 + (4 * i))]
                     st == PrefixSums(ls, 5 + (4 * n))
                 IN IF (4 + (4 * n)) + SumSeq(ls) # Len(bs) THEN Err
                    ELSE LET vs == [i \in 1..n |-> DecEntry(ts[i], Sub(bs, st[i], (st[i] + ls[i]) - 1))]
                         IN IF \E i \in 1..n : vs[i] = Err THEN Err ELSE Arr(Tup(vs))
       ELSE IF kind = KObj
       THEN IF Len(bs) < 4 + (8 * n) THEN Err
            ELSE LET kts == [i \in 1..n |-> EntType(bs, 1 + (4 * i))]
                     kls == [i \in 1..n |-> EntLen(bs, 1 + (4 * i))]
                     ts == [i \in 1..n |-> EntType(bs, 1 + (4 * (n + i)))]
                     ls == [i \in 1..n |-> EntLen(bs, 1 + (4 * (n + i)))]
                     kst == PrefixSums(kls, 5 + (8 * n))
                     st == PrefixSums(ls, (5 + (8 * n)) + SumSeq(kls))
                 IN IF ((4 + (8 * n)) + SumSeq(kls)) + SumSeq(ls) # Len(bs) THEN Err
                    ELSE IF \E i \in 1..n : kts[i] # TStr THEN Err
                    ELSE LET ks == [i \in 1..n |-> Sub(bs, kst[i], (kst[i] + kls[i]) - 1)]
                             vs == [i \in 1..n |-> DecEntry(ts[i], Sub(bs, st[i], (st[i] + ls[i]) - 1))]
                             o == [i \in 1..n |-> <<Tup(ks[i]), vs[i]>>]
                         IN IF \E i \in 1..n : vs[i] = Err \/ ~WellFormed(ks[i]) THEN Err
                            ELSE IF ~SortedKeys(o) THEN Err
                            ELSE Obj(Tup(o))
       ELSE Err

Decode(bs) ==
  IF Len(bs) < 4 THEN Err
  ELSE IF HdrKind(bs, 1) = KScalar
       THEN IF Len(bs) < 8 \/ HdrCount(bs, 1) # 0 THEN Err
            ELSE LET t == EntType(bs, 5)
                     l == EntLen(bs, 5)
                 IN IF t = TCont \/ 8 + l # Len(bs) THEN Err
                    ELSE DecEntry(t, Sub(bs, 9, Len(bs)))
       ELSE DecBody(bs)

\* canonical JSONB: decodes strictly and re-encodes to the identical bytes
IsCanonical(bs) == LET d == Decode(bs) IN d # Err /\ Tup(Encode(d)) = Tup(bs)
=============================================================================
