------------------------------- MODULE GenDeep ------------------------------
(***************************************************************************)
(* Spec -> implementation for deep nesting (C20): routine x shape x depth  *)
(* on a geometric ladder.  Each script is run by the harness in a child    *)
(* process; the validator accepts a result or an error and nothing else.   *)
(***************************************************************************)
EXTENDS Integers, Sequences, Json, TLC
CONSTANTS Depths
VARIABLES stage, scr
Routines == {"parse_value", "parse_and_drop", "drop_value", "to_vec", "from_slice", "to_string", "to_pretty_string", "compare",
             "compare_text", "contains", "strip_nulls", "comparable", "traverse", "type_of", "array_length", "get_by_index",
             "get_by_keypath", "delete_by_keypath", "select_root", "select_wild", "select_filter", "to_serde_json",
             "jp_parse_parens", "concat", "array_distinct"}
Shapes == {"arr", "obj", "mix"}
Init == stage = "start" /\ scr = [op |-> "none"]
Next == /\ stage = "start"
        /\ \E r \in Routines, s \in Shapes, d \in Depths :
              LET x == [op |-> "deep", a |-> [routine |-> r, shape |-> s, depth |-> d]]
              IN scr' = x /\ PrintT(ToJson(x)) /\ stage' = "script"
Spec == Init /\ [][Next]_<<stage, scr>>
GenInv == TRUE
=============================================================================
