------------------------------- MODULE System ------------------------------
(***************************************************************************)
(* The state machine: a caller's session with the library.                 *)
(*   reg   the documents the caller currently holds (abstract trees)       *)
(*   buf   the caller-owned output buffer every result is appended to      *)
(*   hist  the steps taken so far (the script the harness will replay)     *)
(* One action per public editing / extraction / building / selection       *)
(* function; arguments are drawn from the current documents; each result   *)
(* is stored back into a register so that behaviours are chains.  A call   *)
(* that returns a documented error or "nothing" changes neither registers  *)
(* nor buffer.                                                             *)
(* Checked by TLC on every reachable state: registers are documents with   *)
(* sorted unique keys whose encoding is canonical (decodes strictly and    *)
(* re-encodes identically); the buffer only grows and is the concatenation *)
(* of the encodings of the results so far.                                 *)
(* When a behaviour reaches ChainLen steps it is written out as one chain  *)
(* script; the harness replays it on the real crate threading the crate's  *)
(* own output bytes from call to call, and spec/Trace.tla re-runs the same *)
(* actions on the abstract registers and compares at every step.           *)
(***************************************************************************)
EXTENDS Universe, PathAst, Json, TLC

CONSTANTS ChainLen, StartSet,
          Walkers      \* 0: explore every enabled step; n > 0: n independent random walks

VARIABLES reg, buf, hist, start, w,
          rep     \* how the caller currently holds each register: "bin" (JSONB) or "text" (a rendering)
vars == <<reg, buf, hist, start, w, rep>>
R == 2
Nil == [k |-> "nil"]

\* a nested object with a multi-byte key and a null member, followed by a sibling: rebuilding it (strip_nulls,
\* deletion below the top level) must report its exact length to the parent
NestedE == Arr(<<Obj(<< <<ka, u1>>, <<kE, Null>> >>), sab>>)
Starts ==
  CASE StartSet = "small" -> {Null, u1, sab, Arr(<<>>), Obj(<<>>), Arr(<<u1, sab>>), Obj(<< <<ka, Null>>, <<kb, u256>> >>),
                              Arr(<<Arr(<<u1>>), Obj(<< <<ka, u1>> >>), Null>>), NestedE}
    [] StartSet = "tiny" -> {Null, Arr(<<u1, sab>>), Obj(<< <<ka, Null>>, <<kb, u256>> >>), NestedE}
    [] StartSet = "text2" -> {Arr(<<f1, sab>>), Obj(<< <<ka, Null>>, <<kb, u256>> >>), Obj(<< <<ka, u1>> >>)}
    [] OTHER -> RepL1 \cup AtomsSmall
                \cup {Arr(<<u256, Null, f15>>), Arr(<<Arr(<<u1, sab>>), Obj(<< <<ka, Null>> >>)>>), Arr(<<sa, sab, sa>>),
                      Obj(<< <<kEmpty, Null>> >>), Obj(<< <<kEmpty, sEmpty>>, <<ka, Null>> >>), NestedE, Obj(<< <<ka, Obj(<< <<kE, Null>>, <<kEb, True>> >>)>>, <<kb, sab>> >>),
                      Obj(<< <<kB, u1>>, <<ka, Arr(<<sE, f15>>)>> >>), Obj(<< <<kE, Obj(<< <<kab, Null>>, <<kb, sQuote>> >>)>> >>),
                      Arr(<<Obj(<< <<ka, u1>>, <<kb, sab>> >>), Obj(<< <<ka, u2>>, <<kb, Null>> >>), Obj(<< <<ka, f15>> >>)>>),
                      Arr(<<u1, i1, f1, u1>>), Obj(<< <<ka, Obj(<< <<ka, Obj(<< <<ka, Null>>, <<kb, u1>> >>)>> >>)>> >>)}

\* the result of one step on the abstract registers: [t |-> "doc", v] | [t |-> "none"] | [t |-> "err", e]
RDocS(d) == [t |-> "doc", v |-> d]
OfOpt(o) == IF o.t = "none" THEN [t |-> "none"] ELSE RDocS(o.v)
OfEdit(r) == IF r.t = "err" THEN [t |-> "err", e |-> r.e] ELSE RDocS(r.v)
SelMode(s, mode) ==
  IF ~s.ok THEN [t |-> "err", e |-> "InvalidJsonPath"]
  ELSE LET items == ModeItems(mode, s.v) IN IF Len(items) = 0 THEN [t |-> "none"] ELSE RDocS(items[1])

RECURSIVE ToUnsignedD(_)
ToUnsignedD(d) ==
  CASE d.k = "num" -> IF d.r = "i" /\ d.b[1] < 128 THEN NumD(N("u", d.b)) ELSE d
    [] d.k = "arr" -> Arr([i \in 1..Len(d.a) |-> ToUnsignedD(d.a[i])])
    [] d.k = "obj" -> Obj([i \in 1..Len(d.o) |-> <<d.o[i][1], ToUnsignedD(d.o[i][2])>>])
    [] OTHER -> d
ApplyStep(s, rg) ==
  LET x == rg[s.src[1]]
      y == IF Len(s.src) >= 2 THEN rg[s.src[2]] ELSE Nil
      a == s.a
  IN CASE s.f = "concat" -> RDocS(Concat(x, y))
       [] s.f = "delete_by_name" -> OfEdit(DeleteByName(x, a.n))
       [] s.f = "delete_by_index" -> OfEdit(DeleteByIndex(x, a.i))
       [] s.f = "delete_by_keypath" -> OfEdit(DeleteByKeypath(x, a.kp))
       [] s.f = "array_insert" -> RDocS(ArrayInsert(x, a.pos, y))
       [] s.f = "object_insert" -> OfEdit(ObjectInsert(x, a.n, y, a.upd = 1))
       [] s.f = "object_delete" -> OfEdit(ObjectDelete(x, a.keys))
       [] s.f = "object_pick" -> OfEdit(ObjectPick(x, a.keys))
       [] s.f = "strip_nulls" -> RDocS(StripNulls(x))
       [] s.f = "build_array" -> RDocS(BuildArray(<<x, y>>))
       [] s.f = "build_object" -> RDocS(BuildObject(a.keys, <<x, y>>))
       [] s.f = "array_distinct" -> RDocS(ArrayDistinct(x))
       [] s.f = "array_intersection" -> RDocS(ArrayIntersection(x, y))
       [] s.f = "array_except" -> RDocS(ArrayExcept(x, y))
       [] s.f = "get_by_index" -> OfOpt(GetByIndex(x, a.i))
       [] s.f = "get_by_name" -> OfOpt(GetByName(x, a.n, a.ic = 1))
       [] s.f = "get_by_keypath" -> OfOpt(GetByKeypath(x, a.kp))
       [] s.f = "object_keys" -> OfOpt(ObjectKeys(x))
       [] s.f = "select" -> SelMode(Select(a.path, x), a.mode)
       \* rendering to JSON text: the register then holds the text, which denotes the document with its
       \* non-negative integers unsigned; later steps receive the text as their argument
       [] s.f \in {"to_string", "to_pretty_string"} -> [t |-> "text", v |-> ToUnsignedD(Canon(x))]

St(f, src, dst, a) == [f |-> f, src |-> src, dst |-> dst, a |-> a]
NoArgS == [z |-> 0]
ChainPaths == {<<Root, Idx(<<AiI(IxL(0)), AiI(IxN(0))>>)>>, <<Root, Idx(<<AiS(IxN(1), IxL(0)), AiI(IxN(0))>>)>>, <<Root, BrW, Idx(<<AiI(IxN(1)), AiI(IxN(0))>>)>>,
               <<Root, Idx(<<AiS(IxL(-1), IxL(0))>>)>>, <<Root, Idx(<<AiI(IxN(0)), AiI(IxN(0))>>)>>, <<Root, BrW, BrW>>, <<Root, BrW>>, <<Root, Dot(ka)>>, <<Root, DotW>>, <<Root, Idx(<<AiS(IxN(0), IxL(0))>>)>>, <<Root, Idx(<<AiI(IxL(0))>>)>>,
               <<Root, BrW, FilterSt(EBin("gt", EPaths(<<Cur, Dot(ka)>>), EVal(PNum(u1))))>>, <<Root, BrW, Dot(ka)>>,
               <<Root, FilterSt(EExists(<<Cur, Dot(ka)>>))>>}

\* the steps of one kind enabled for source registers i, j and destination d (arguments drawn from
\* the current documents)
Kinds == {"unary", "del_name", "get_name", "del_index", "get_index", "del_kp", "get_kp", "keysets", "select", "binary", "insert", "oinsert", "build"}
KindSteps(kind, i, j, d, rg, rp) ==
  LET x == rg[i] IN
  CASE kind = "unary" -> {St("strip_nulls", <<i>>, d, NoArgS), St("array_distinct", <<i>>, d, NoArgS), St("object_keys", <<i>>, d, NoArgS),
                          St("to_string", <<i>>, i, NoArgS), St("to_pretty_string", <<i>>, i, NoArgS)}
    [] kind = "del_name" -> {St("delete_by_name", <<i>>, d, [n |-> n]) : n \in NameArgs(x)}
    [] kind = "get_name" -> {St("get_by_name", <<i>>, d, [n |-> n, ic |-> c]) : n \in NameArgs(x), c \in {0, 1}}
    [] kind = "del_index" -> {St("delete_by_index", <<i>>, d, [i |-> k]) : k \in IndexArgs(x)}
    [] kind = "get_index" -> {St("get_by_index", <<i>>, d, [i |-> k]) : k \in 0..Width1(x)}
    [] kind = "del_kp" -> {St("delete_by_keypath", <<i>>, d, [kp |-> p]) : p \in KPaths(x, 2)}
    [] kind = "get_kp" -> {St("get_by_keypath", <<i>>, d, [kp |-> p]) : p \in KPaths(x, 2)}
    [] kind = "keysets" -> {St(f, <<i>>, d, [keys |-> ks]) : f \in {"object_delete", "object_pick"}, ks \in KeyLists(x)}
    [] kind = "select" -> {St("select", <<i>>, d, [path |-> p, mode |-> m]) : p \in ChainPaths, m \in {"first", "array", "mixed"}}
    [] kind = "binary" -> {St(f, <<i, j>>, d, NoArgS) : f \in {"concat", "array_intersection", "array_except"}}
    [] kind = "insert" -> {St("array_insert", <<i, j>>, d, [pos |-> k]) : k \in IndexArgs(x)}
    [] kind = "oinsert" -> {St("object_insert", <<i, j>>, d, [n |-> n, upd |-> u]) : n \in PresentKeys(x) \cup {ka, <<122>>}, u \in {0, 1}}
    \* the builders take JSONB parts only ("assuming that the input values is valid JSONB data")
    [] kind = "build" -> IF rp[i] = "bin" /\ rp[j] = "bin"
                         THEN {St("build_array", <<i, j>>, d, NoArgS)} \cup {St("build_object", <<i, j>>, d, [keys |-> ks]) : ks \in {<<ka, kb>>, <<kb, ka>>, <<ka, ka>>}}
                         ELSE {}

\* every step enabled in the current state
StepsFrom(rg, rp) == UNION {KindSteps(k, i, j, d, rg, rp) : k \in Kinds, i \in 1..R, j \in 1..R, d \in 1..R}

\* one enabled step drawn at random: a kind, the registers, then an argument (a random walk never needs
\* the whole set of enabled steps)
RECURSIVE Nodes(_)
Nodes(d) == CASE d.k = "arr" -> 1 + SumSeq([i \in 1..Len(d.a) |-> Nodes(d.a[i])])
              [] d.k = "obj" -> 1 + SumSeq([i \in 1..Len(d.o) |-> Nodes(d.o[i][2])])
              [] OTHER -> 1
MaxNodes == 60
Candidate(rg, rp) ==
  LET k == RandomElement(Kinds)
      i == RandomElement(1..R)  j == RandomElement(1..R)  d == RandomElement(1..R)
      S == KindSteps(k, i, j, d, rg, rp)
  IN IF S = {} THEN St("strip_nulls", <<i>>, d, NoArgS) ELSE RandomElement(S)
\* documents are kept small (a walk that keeps concatenating a register with itself would double it
\* at every step): a candidate whose result is too large is redrawn, then replaced by an extraction
SmallEnough(s, rg) == LET r == ApplyStep(s, rg) IN r.t \notin {"doc", "text"} \/ Nodes(r.v) <= MaxNodes
\* (the candidates are bound by \E over singleton sets: a LET definition would be re-evaluated, and so
\* re-drawn, at every use)
PickSmall(k1, k2, k3, rg) ==
  IF SmallEnough(k1, rg) THEN k1 ELSE IF SmallEnough(k2, rg) THEN k2 ELSE IF SmallEnough(k3, rg) THEN k3
  ELSE St("get_by_index", <<1>>, 1, [i |-> 0])

\* a random walk takes one randomly chosen enabled step where exhaustive exploration takes all
Chosen(S) == IF Walkers = 0 THEN S ELSE {RandomElement(S)}
Init == reg = [i \in 1..R |-> Nil] /\ buf = <<>> /\ hist = <<>> /\ start = <<>> /\ w \in (IF Walkers = 0 THEN {0} ELSE 1..Walkers)
        /\ rep = [i \in 1..R |-> "bin"]
Begin ==
  /\ start = <<>>
  /\ \E d1 \in Chosen(Starts), d2 \in Chosen(Starts) : start' = <<d1, d2>> /\ reg' = <<d1, d2>>
  /\ UNCHANGED <<buf, hist, w, rep>>
DoStep ==
  /\ start # <<>> /\ Len(hist) < ChainLen
  \* (StartSet "text2": exhaustive two-step chains whose first step renders a register to text)
  /\ \E k1 \in (IF Walkers = 0 THEN (IF StartSet = "text2" /\ hist = <<>> THEN {s \in StepsFrom(reg, rep) : s.f \in {"to_string", "to_pretty_string"}} ELSE StepsFrom(reg, rep))
                 ELSE {Candidate(reg, rep)}) :
     \E k2 \in (IF Walkers = 0 THEN {k1} ELSE {Candidate(reg, rep)}) :
     \E k3 \in (IF Walkers = 0 THEN {k1} ELSE {Candidate(reg, rep)}) :
       LET s == IF Walkers = 0 THEN k1 ELSE PickSmall(k1, k2, k3, reg)
           r == ApplyStep(s, reg)
       IN /\ hist' = Append(hist, s)
          /\ reg' = IF r.t \in {"doc", "text"} THEN [reg EXCEPT ![s.dst] = r.v] ELSE reg
          /\ rep' = IF r.t = "doc" THEN [rep EXCEPT ![s.dst] = "bin"] ELSE IF r.t = "text" THEN [rep EXCEPT ![s.dst] = "text"] ELSE rep
          /\ buf' = IF r.t = "doc" THEN buf \o Encode(r.v) ELSE buf
  /\ UNCHANGED <<start, w>>
Next == Begin \/ DoStep
Spec == Init /\ [][Next]_vars

----------------------------------------------------------------------------
RegsAreDocs == start # <<>> => \A i \in 1..R : IsDoc(reg[i])
CanonInv == start # <<>> => \A i \in 1..R : Decode(Encode(reg[i])) = Canon(reg[i]) /\ IsCanonical(Encode(reg[i]))
\* byte equality coincides with value identity: equal encodings <=> equal canonical trees
ByteIdentity == start # <<>> => (Tup(Encode(reg[1])) = Tup(Encode(reg[2])) <=> Canon(reg[1]) = Canon(reg[2]))
AppendOnly == [][IsPrefixOf(buf, buf')]_vars
\* a behaviour that reached ChainLen steps is written out as one chain script (evaluated once per
\* state TLC keeps)
EmitInv == Len(hist) = ChainLen /\ start # <<>> => PrintT(ToJson([op |-> "chain", start |-> start, steps |-> hist]))
GenInv == RegsAreDocs /\ CanonInv /\ ByteIdentity /\ EmitInv
=============================================================================
