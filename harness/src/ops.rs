// Execute one script line against the real crate and return the event to log.
// The harness never judges: it records inputs exactly as passed and results exactly as returned.
use crate::tree::*;
use jsonb::jsonpath::*;
use jsonb::keypath::{parse_key_paths, KeyPath, KeyPaths};
use jsonb::{Number, Value};
use serde_json::{json, Map, Value as J};
use std::borrow::Cow;
use std::collections::BTreeSet;
use std::panic::{catch_unwind, AssertUnwindSafe};

pub fn err_name(e: &jsonb::Error) -> String {
    let s = format!("{:?}", e);
    match s.find('(') {
        Some(i) => s[..i].to_string(),
        None => s,
    }
}

fn r_bytes(b: &[u8]) -> J {
    json!({"t":"bytes","v":bytes_to_j(b)})
}
fn r_str(b: &[u8]) -> J {
    json!({"t":"str","v":bytes_to_j(b)})
}
fn r_none() -> J {
    json!({"t":"none"})
}
fn r_err(e: &jsonb::Error) -> J {
    json!({"t":"err","e":err_name(e)})
}
fn r_bool(b: bool) -> J {
    json!({"t":"bool","v": if b {1} else {0}})
}
fn r_int(i: i64) -> J {
    json!({"t":"int","v":i})
}
fn r_ord(o: std::cmp::Ordering) -> J {
    json!({"t":"ord","v": match o { std::cmp::Ordering::Less => -1, std::cmp::Ordering::Equal => 0, std::cmp::Ordering::Greater => 1 }})
}
fn r_doc(v: &Value) -> J {
    json!({"t":"doc","v":value_to_tree(v)})
}
fn r_unit() -> J {
    json!({"t":"unit"})
}

pub fn guard<F: FnOnce() -> J>(f: F) -> J {
    match catch_unwind(AssertUnwindSafe(f)) {
        Ok(j) => j,
        Err(p) => {
            let msg = if let Some(s) = p.downcast_ref::<&str>() {
                s.to_string()
            } else if let Some(s) = p.downcast_ref::<String>() {
                s.clone()
            } else {
                "panic".to_string()
            };
            let mut m: String = msg.chars().filter(|c| c.is_ascii() && !c.is_ascii_control()).collect();
            m.truncate(160);
            json!({"t":"panic","m":m})
        }
    }
}

// A buffer-writing call: once into an empty buffer, and (when `pre` is given) once into a
// buffer that already holds `pre`.
fn buffered<F: Fn(&mut Vec<u8>) -> Result<(), jsonb::Error>>(ev: &mut Map<String, J>, pre: Option<Vec<u8>>, f: F) {
    let res = guard(|| {
        let mut buf = Vec::new();
        match f(&mut buf) {
            Ok(()) => r_bytes(&buf),
            Err(e) => {
                if buf.is_empty() {
                    r_err(&e)
                } else {
                    json!({"t":"err","e":err_name(&e),"dirty":bytes_to_j(&buf)})
                }
            }
        }
    });
    ev.insert("res".into(), res);
    if let Some(pre) = pre {
        let res2 = guard(|| {
            let mut buf = pre.clone();
            let r = f(&mut buf);
            json!({"t":"buf","ok": if r.is_ok() {1} else {0},"after":bytes_to_j(&buf)})
        });
        ev.insert("res2".into(), res2);
    }
}

fn kp_from_j(j: &J) -> Vec<KeyPath<'static>> {
    j.as_array()
        .unwrap()
        .iter()
        .map(|e| {
            if let Some(i) = e.get("i") {
                KeyPath::Index(i.as_i64().unwrap() as i32)
            } else if let Some(n) = e.get("n") {
                KeyPath::Name(Cow::Owned(String::from_utf8(j_to_bytes(n)).unwrap()))
            } else {
                KeyPath::QuotedName(Cow::Owned(String::from_utf8(j_to_bytes(&e["q"])).unwrap()))
            }
        })
        .collect()
}

fn kp_to_j(k: &KeyPaths) -> J {
    J::Array(
        k.paths
            .iter()
            .map(|e| match e {
                KeyPath::Index(i) => json!({"i":i}),
                KeyPath::Name(n) => json!({"n":bytes_to_j(n.as_bytes())}),
                KeyPath::QuotedName(n) => json!({"q":bytes_to_j(n.as_bytes())}),
            })
            .collect(),
    )
}

fn s_of(j: &J) -> String {
    String::from_utf8(j_to_bytes(j)).expect("utf8 name in script")
}

// ----------------------------------------------------------------------------- JSONPath AST
fn index_from_j(j: &J) -> Index {
    let v = j["v"].as_i64().unwrap() as i32;
    if j["t"] == "l" {
        Index::LastIndex(v)
    } else {
        Index::Index(v)
    }
}
fn index_to_j(i: &Index) -> J {
    match i {
        Index::Index(v) => json!({"t":"n","v":v}),
        Index::LastIndex(v) => json!({"t":"l","v":v}),
    }
}
fn pv_from_j(j: &J) -> PathValue<'static> {
    match j["v"].as_str().unwrap() {
        "null" => PathValue::Null,
        "bool" => PathValue::Boolean(j["b"].as_i64().unwrap() != 0),
        "num" => PathValue::Number(j_to_num(j)),
        _ => PathValue::String(Cow::Owned(s_of(&j["s"]))),
    }
}
fn pv_to_j(v: &PathValue) -> J {
    match v {
        PathValue::Null => json!({"v":"null"}),
        PathValue::Boolean(b) => json!({"v":"bool","b": if *b {1} else {0}}),
        PathValue::Number(n) => {
            let mut o = num_to_j(n);
            o["v"] = json!("num");
            o
        }
        PathValue::String(s) => json!({"v":"str","s":bytes_to_j(s.as_bytes())}),
    }
}
fn binop_from(s: &str) -> BinaryOperator {
    match s {
        "and" => BinaryOperator::And,
        "or" => BinaryOperator::Or,
        "eq" => BinaryOperator::Eq,
        "ne" => BinaryOperator::NotEq,
        "lt" => BinaryOperator::Lt,
        "le" => BinaryOperator::Lte,
        "gt" => BinaryOperator::Gt,
        _ => BinaryOperator::Gte,
    }
}
fn binop_to(o: &BinaryOperator) -> &'static str {
    match o {
        BinaryOperator::And => "and",
        BinaryOperator::Or => "or",
        BinaryOperator::Eq => "eq",
        BinaryOperator::NotEq => "ne",
        BinaryOperator::Lt => "lt",
        BinaryOperator::Lte => "le",
        BinaryOperator::Gt => "gt",
        BinaryOperator::Gte => "ge",
    }
}
fn expr_from_j(j: &J) -> Expr<'static> {
    match j["e"].as_str().unwrap() {
        "paths" => Expr::Paths(paths_from_j(&j["ps"])),
        "val" => Expr::Value(Box::new(pv_from_j(&j["v"]))),
        "bin" => Expr::BinaryOp {
            op: binop_from(j["op"].as_str().unwrap()),
            left: Box::new(expr_from_j(&j["l"])),
            right: Box::new(expr_from_j(&j["r"])),
        },
        "exists" => Expr::FilterFunc(FilterFunc::Exists(paths_from_j(&j["ps"]))),
        "un" => Expr::ArithmeticFunc(ArithmeticFunc::Unary {
            op: if j["op"] == "neg" { UnaryArithmeticOperator::Subtract } else { UnaryArithmeticOperator::Add },
            operand: Box::new(expr_from_j(&j["x"])),
        }),
        _ => Expr::ArithmeticFunc(ArithmeticFunc::Binary {
            op: match j["op"].as_str().unwrap() {
                "add" => BinaryArithmeticOperator::Add,
                "sub" => BinaryArithmeticOperator::Subtract,
                "mul" => BinaryArithmeticOperator::Multiply,
                "div" => BinaryArithmeticOperator::Divide,
                _ => BinaryArithmeticOperator::Modulus,
            },
            left: Box::new(expr_from_j(&j["l"])),
            right: Box::new(expr_from_j(&j["r"])),
        }),
    }
}
fn expr_to_j(e: &Expr) -> J {
    match e {
        Expr::Paths(ps) => json!({"e":"paths","ps":paths_to_j(ps)}),
        Expr::Value(v) => json!({"e":"val","v":pv_to_j(v)}),
        Expr::BinaryOp { op, left, right } => json!({"e":"bin","op":binop_to(op),"l":expr_to_j(left),"r":expr_to_j(right)}),
        Expr::FilterFunc(FilterFunc::Exists(ps)) => json!({"e":"exists","ps":paths_to_j(ps)}),
        Expr::ArithmeticFunc(ArithmeticFunc::Unary { op, operand }) => json!({"e":"un","op": match op { UnaryArithmeticOperator::Add => "pos", UnaryArithmeticOperator::Subtract => "neg" },"x":expr_to_j(operand)}),
        Expr::ArithmeticFunc(ArithmeticFunc::Binary { op, left, right }) => json!({"e":"ar","op": match op {
            BinaryArithmeticOperator::Add => "add", BinaryArithmeticOperator::Subtract => "sub", BinaryArithmeticOperator::Multiply => "mul",
            BinaryArithmeticOperator::Divide => "div", BinaryArithmeticOperator::Modulus => "mod" },"l":expr_to_j(left),"r":expr_to_j(right)}),
    }
}
fn paths_from_j(j: &J) -> Vec<Path<'static>> {
    j.as_array().unwrap().iter().map(path_from_j).collect()
}
fn path_from_j(j: &J) -> Path<'static> {
    match j["p"].as_str().unwrap() {
        "root" => Path::Root,
        "cur" => Path::Current,
        "dotw" => Path::DotWildcard,
        "brw" => Path::BracketWildcard,
        "dot" => Path::DotField(Cow::Owned(s_of(&j["n"]))),
        "colon" => Path::ColonField(Cow::Owned(s_of(&j["n"]))),
        "objf" => Path::ObjectField(Cow::Owned(s_of(&j["n"]))),
        "idx" => Path::ArrayIndices(
            j["ix"]
                .as_array()
                .unwrap()
                .iter()
                .map(|a| {
                    if a["x"] == "s" {
                        ArrayIndex::Slice((index_from_j(&a["s"]), index_from_j(&a["e"])))
                    } else {
                        ArrayIndex::Index(index_from_j(&a["i"]))
                    }
                })
                .collect(),
        ),
        "filter" => Path::FilterExpr(Box::new(expr_from_j(&j["e"]))),
        "pred" => Path::Predicate(Box::new(expr_from_j(&j["e"]))),
        _ => Path::ArithmeticExpr(Box::new(expr_from_j(&j["e"]))),
    }
}
fn paths_to_j(ps: &[Path]) -> J {
    J::Array(ps.iter().map(path_to_j).collect())
}
fn path_to_j(p: &Path) -> J {
    match p {
        Path::Root => json!({"p":"root"}),
        Path::Current => json!({"p":"cur"}),
        Path::DotWildcard => json!({"p":"dotw"}),
        Path::BracketWildcard => json!({"p":"brw"}),
        Path::DotField(n) => json!({"p":"dot","n":bytes_to_j(n.as_bytes())}),
        Path::ColonField(n) => json!({"p":"colon","n":bytes_to_j(n.as_bytes())}),
        Path::ObjectField(n) => json!({"p":"objf","n":bytes_to_j(n.as_bytes())}),
        Path::ArrayIndices(ix) => json!({"p":"idx","ix": ix.iter().map(|a| match a {
            ArrayIndex::Index(i) => json!({"x":"i","i":index_to_j(i)}),
            ArrayIndex::Slice((s,e)) => json!({"x":"s","s":index_to_j(s),"e":index_to_j(e)}),
        }).collect::<Vec<_>>()}),
        Path::FilterExpr(e) => json!({"p":"filter","e":expr_to_j(e)}),
        Path::Predicate(e) => json!({"p":"pred","e":expr_to_j(e)}),
        Path::ArithmeticExpr(e) => json!({"p":"arith","e":expr_to_j(e)}),
    }
}

// ----------------------------------------------------------------------------- serde_json
fn serde_to_j(v: &serde_json::Value) -> J {
    match v {
        J::Null => json!({"k":"null"}),
        J::Bool(b) => json!({"k": if *b {"true"} else {"false"}}),
        J::Number(n) => {
            if n.is_u64() {
                json!({"k":"num","r":"u","b":bytes_to_j(&n.as_u64().unwrap().to_be_bytes())})
            } else if n.is_i64() {
                json!({"k":"num","r":"i","b":bytes_to_j(&n.as_i64().unwrap().to_be_bytes())})
            } else {
                json!({"k":"num","r":"f","b":bytes_to_j(&n.as_f64().unwrap().to_bits().to_be_bytes())})
            }
        }
        J::String(s) => json!({"k":"str","s":bytes_to_j(s.as_bytes())}),
        J::Array(a) => json!({"k":"arr","a":a.iter().map(serde_to_j).collect::<Vec<_>>()}),
        J::Object(o) => {
            let mut kv: Vec<(&String, &J)> = o.iter().collect();
            kv.sort_by(|a, b| a.0.as_bytes().cmp(b.0.as_bytes()));
            json!({"k":"obj","o":kv.iter().map(|(k,v)| json!([bytes_to_j(k.as_bytes()), serde_to_j(v)])).collect::<Vec<_>>()})
        }
    }
}

fn f64_j(f: f64) -> J {
    bytes_to_j(&f.to_bits().to_be_bytes())
}

fn opt_bytes(o: Option<Vec<u8>>) -> J {
    match o {
        Some(b) => r_bytes(&b),
        None => r_none(),
    }
}

fn select_one(root: &[u8], jp: &JsonPath<'static>, mode: Mode, pre: &[u8], preoffs: &[u64]) -> J {
    guard(|| {
        let sel = Selector::new(jp.clone(), mode);
        let mut data = pre.to_vec();
        let mut offs = preoffs.to_vec();
        match sel.select(root, &mut data, &mut offs) {
            Ok(()) => json!({"t":"sel","data":bytes_to_j(&data),"offs":offs}),
            Err(e) => json!({"t":"err","e":err_name(&e),"data":bytes_to_j(&data),"offs":offs}),
        }
    })
}

fn res_bool(r: Result<bool, jsonb::Error>) -> J {
    match r {
        Ok(b) => r_bool(b),
        Err(e) => r_err(&e),
    }
}

pub fn exec(s: &J) -> J {
    let mut ev: Map<String, J> = s.as_object().expect("script object").clone();
    let op = s["op"].as_str().expect("op").to_string();
    let a = s.get("a").cloned().unwrap_or(json!({}));
    let fl = s.get("fl").cloned().unwrap_or(json!([]));
    // inputs exactly as passed to the crate
    let mut inp: Vec<Vec<u8>> = Vec::new();
    let mut vals: Vec<Value<'static>> = Vec::new();
    if let Some(raw) = s.get("raw") {
        for r in raw.as_array().unwrap() {
            inp.push(j_to_bytes(r));
        }
    } else if let Some(d) = s.get("d") {
        for (i, t) in d.as_array().unwrap().iter().enumerate() {
            let v = tree_to_value(t);
            let rp = s.get("rp").and_then(|r| r.get(i)).and_then(|x| x.as_u64()).unwrap_or(0);
            if rp == 0 {
                inp.push(encode_value(&v));
            } else {
                inp.push(render_text(&v, rp - 1, &fl));
            }
            vals.push(v);
        }
    }
    ev.insert("inp".into(), J::Array(inp.iter().map(|b| bytes_to_j(b)).collect()));
    let pre: Option<Vec<u8>> = a.get("pre").map(j_to_bytes);
    let i0: &[u8] = inp.get(0).map(|v| v.as_slice()).unwrap_or(&[]);
    let i1: &[u8] = inp.get(1).map(|v| v.as_slice()).unwrap_or(&[]);

    match op.as_str() {
        // ------------------------------------------------------------------ codec
        "to_vec" => {
            // always through the tree, whatever rp says
            let v = &vals[0];
            ev.insert("res".into(), guard(|| r_bytes(&v.to_vec())));
            if let Some(pre) = pre {
                ev.insert(
                    "res2".into(),
                    guard(|| {
                        let mut buf = pre.clone();
                        v.write_to_vec(&mut buf);
                        json!({"t":"buf","ok":1,"after":bytes_to_j(&buf)})
                    }),
                );
            }
        }
        "from_slice" => {
            ev.insert("res".into(), guard(|| match jsonb::from_slice(i0) { Ok(v) => r_doc(&v), Err(e) => r_err(&e) }));
        }
        "parse_jsonb" => {
            ev.insert("res".into(), guard(|| match jsonb::parse_jsonb(i0) { Ok(v) => r_doc(&v), Err(e) => r_err(&e) }));
        }
        "decode" => {
            // both binary decoders on the same bytes; strings reported as raw bytes so that
            // ill-formed UTF-8 survives the trip to the validator
            ev.insert("res".into(), guard(|| match jsonb::parse_jsonb(i0) { Ok(v) => r_doc(&v), Err(e) => r_err(&e) }));
            ev.insert("res_fs".into(), guard(|| match jsonb::from_slice(i0) { Ok(v) => r_doc(&v), Err(e) => r_err(&e) }));
        }
        "roundtrip" => {
            let v = &vals[0];
            ev.insert(
                "res".into(),
                guard(|| {
                    let b1 = v.to_vec();
                    let v2 = match jsonb::from_slice(&b1) {
                        Ok(v2) => v2,
                        Err(e) => return r_err(&e),
                    };
                    let v3 = match jsonb::parse_jsonb(&b1) {
                        Ok(v3) => v3,
                        Err(e) => return r_err(&e),
                    };
                    let b2 = v2.to_vec();
                    json!({"t":"rt","b1":bytes_to_j(&b1),"v2":value_to_tree(&v2),"v3":value_to_tree(&v3),"b2":bytes_to_j(&b2),
                           "eq": if *v == v2 {1} else {0}})
                }),
            );
        }
        "parse_value" => {
            ev.insert("res".into(), guard(|| match jsonb::parse_value(i0) { Ok(v) => r_doc(&v), Err(e) => r_err(&e) }));
        }
        "lazy" => {
            ev.insert(
                "res".into(),
                guard(|| match jsonb::parse_lazy_value(i0) {
                    Ok(lv) => {
                        let kind = match &lv { jsonb::LazyValue::Value(_) => "value", jsonb::LazyValue::Raw(_) => "raw" };
                        let mut buf = pre.clone().unwrap_or_default();
                        lv.write_to_vec(&mut buf);
                        json!({"t":"lazy","kind":kind,"vec":bytes_to_j(&lv.to_vec()),"wvec":bytes_to_j(&buf),
                               "alen": match lv.array_length() { Some(n) => json!([n]), None => json!([]) },
                               "val": value_to_tree(&lv.to_value())})
                    }
                    Err(e) => r_err(&e),
                }),
            );
        }
        "to_string" => {
            ev.insert("res".into(), guard(|| r_str(jsonb::to_string(i0).as_bytes())));
        }
        "to_pretty_string" => {
            ev.insert("res".into(), guard(|| r_str(jsonb::to_pretty_string(i0).as_bytes())));
        }
        "render" => {
            // compact, pretty, and the re-parse of each (what the code itself reads back)
            ev.insert(
                "res".into(),
                guard(|| {
                    let c = jsonb::to_string(i0);
                    let p = jsonb::to_pretty_string(i0);
                    let rc = match jsonb::parse_value(c.as_bytes()) { Ok(v) => json!({"t":"bytes","v":bytes_to_j(&v.to_vec())}), Err(e) => r_err(&e) };
                    let rp = match jsonb::parse_value(p.as_bytes()) { Ok(v) => json!({"t":"bytes","v":bytes_to_j(&v.to_vec())}), Err(e) => r_err(&e) };
                    json!({"t":"render","c":bytes_to_j(c.as_bytes()),"p":bytes_to_j(p.as_bytes()),"rc":rc,"rp":rp})
                }),
            );
        }
        "value_api" => {
            // the tree-level API of `Value`, which the byte-level functions fall back to for text
            let v = &vals[0];
            let w = vals.get(1).cloned();
            let name = a.get("n").map(s_of).unwrap_or_default();
            ev.insert(
                "res".into(),
                guard(|| {
                    let optb = |o: Option<Vec<u8>>| match o { Some(b) => json!([bytes_to_j(&b)]), None => json!([]) };
                    json!({"t":"valueapi",
                        "ic": match v.get_by_name_ignore_case(&name) { Some(x) => json!([value_to_tree(x)]), None => json!([]) },
                        "alen": match v.array_length() { Some(n) => json!([n]), None => json!([]) },
                        "keys": match v.object_keys() { Some(x) => json!([value_to_tree(&x)]), None => json!([]) },
                        "is": [v.is_scalar() as u8, v.is_object() as u8, v.is_array() as u8, v.is_string() as u8, v.is_number() as u8, v.is_null() as u8, v.is_boolean() as u8,
                               v.is_i64() as u8, v.is_u64() as u8, v.is_f64() as u8],
                        "i64": optb(v.as_i64().map(|x| x.to_be_bytes().to_vec())),
                        "u64": optb(v.as_u64().map(|x| x.to_be_bytes().to_vec())),
                        "f64": optb(v.as_f64().map(|x| x.to_bits().to_be_bytes().to_vec())),
                        "bool": match v.as_bool() { Some(b) => json!([b as u8]), None => json!([]) },
                        "str": optb(v.as_str().map(|s| s.as_bytes().to_vec())),
                        "eq": match &w { Some(w) => json!([(v == w) as u8, v.eq_variant(w) as u8]), None => json!([]) },
                        "vec": bytes_to_j(&v.to_vec()),
                        "clone_eq": (v.clone() == *v) as u8,
                        "default_is_null": (Value::default() == Value::Null) as u8})
                }),
            );
        }
        "rand_value" => {
            ev.insert(
                "res".into(),
                guard(|| {
                    let v = jsonb::rand_value();
                    json!({"t":"rand","v":value_to_tree(&v),"vec":bytes_to_j(&v.to_vec())})
                }),
            );
        }
        "from_conv" => {
            // the From conversions into Value, driven by a small tagged description
            let spec = a["conv"].clone();
            ev.insert(
                "res".into(),
                guard(|| {
                    let v: Value = match spec["k"].as_str().unwrap() {
                        "i8" => Value::from(spec["v"].as_i64().unwrap() as i8),
                        "i16" => Value::from(spec["v"].as_i64().unwrap() as i16),
                        "i32" => Value::from(spec["v"].as_i64().unwrap() as i32),
                        "i64" => Value::from(spec["v"].as_i64().unwrap()),
                        "u8" => Value::from(spec["v"].as_u64().unwrap() as u8),
                        "u16" => Value::from(spec["v"].as_u64().unwrap() as u16),
                        "u32" => Value::from(spec["v"].as_u64().unwrap() as u32),
                        "u64" => Value::from(spec["v"].as_u64().unwrap()),
                        "f32" => Value::from(f32::from_bits(spec["v"].as_u64().unwrap() as u32)),
                        "bool" => Value::from(spec["v"].as_i64().unwrap() != 0),
                        "str" => Value::from(s_of(&spec["v"])),
                        "unit" => Value::from(()),
                        "vec_i32" => Value::from(spec["v"].as_array().unwrap().iter().map(|x| x.as_i64().unwrap() as i32).collect::<Vec<i32>>()),
                        "iter_str" => spec["v"].as_array().unwrap().iter().map(s_of).collect::<Value>(),
                        "pairs" => spec["v"].as_array().unwrap().iter().map(|kv| (s_of(&kv[0]), kv[1].as_i64().unwrap())).collect::<Value>(),
                        other => panic!("conv {other}"),
                    };
                    r_doc(&v)
                }),
            );
        }
        "value_display" => {
            let v = &vals[0];
            ev.insert("res".into(), guard(|| r_str(format!("{}", v).as_bytes())));
        }
        // ------------------------------------------------------------------ accessors
        "get_by_index" => {
            let i = a["i"].as_u64().unwrap() as usize;
            ev.insert("res".into(), guard(|| opt_bytes(jsonb::get_by_index(i0, i))));
        }
        "get_by_name" => {
            let n = s_of(&a["n"]);
            let ic = a["ic"].as_i64().unwrap_or(0) != 0;
            ev.insert("res".into(), guard(|| opt_bytes(jsonb::get_by_name(i0, &n, ic))));
        }
        "get_by_keypath" => {
            let kp = kp_from_j(&a["kp"]);
            ev.insert("res".into(), guard(|| opt_bytes(jsonb::get_by_keypath(i0, kp.iter()))));
        }
        "array_length" => {
            ev.insert("res".into(), guard(|| match jsonb::array_length(i0) { Some(n) => r_int(n as i64), None => r_none() }));
        }
        "object_keys" => {
            ev.insert("res".into(), guard(|| opt_bytes(jsonb::object_keys(i0))));
        }
        "object_each" => {
            ev.insert(
                "res".into(),
                guard(|| match jsonb::object_each(i0) {
                    Some(kv) => json!({"t":"pairs","v":kv.iter().map(|(k,v)| json!([bytes_to_j(k), bytes_to_j(v)])).collect::<Vec<_>>()}),
                    None => r_none(),
                }),
            );
        }
        "array_values" => {
            ev.insert(
                "res".into(),
                guard(|| match jsonb::array_values(i0) {
                    Some(vs) => json!({"t":"list","v":vs.iter().map(|v| bytes_to_j(v)).collect::<Vec<_>>()}),
                    None => r_none(),
                }),
            );
        }
        "type_of" => {
            ev.insert("res".into(), guard(|| match jsonb::type_of(i0) { Ok(t) => json!({"t":"name","v":t}), Err(e) => r_err(&e) }));
        }
        "casts" => {
            let one = |name: &str, f: &dyn Fn() -> J| -> (String, J) { (name.to_string(), guard(|| f())) };
            let ob = |o: Option<bool>| match o { Some(b) => r_bool(b), None => r_none() };
            let list: Vec<(String, J)> = vec![
                one("is_null", &|| r_bool(jsonb::is_null(i0))),
                one("as_null", &|| match jsonb::as_null(i0) { Some(()) => r_unit(), None => r_none() }),
                one("is_boolean", &|| r_bool(jsonb::is_boolean(i0))),
                one("as_bool", &|| ob(jsonb::as_bool(i0))),
                one("to_bool", &|| match jsonb::to_bool(i0) { Ok(b) => r_bool(b), Err(e) => r_err(&e) }),
                one("is_number", &|| r_bool(jsonb::is_number(i0))),
                one("as_number", &|| match jsonb::as_number(i0) { Some(n) => { let mut o = num_to_j(&n); o["t"] = json!("num"); o }, None => r_none() }),
                one("is_i64", &|| r_bool(jsonb::is_i64(i0))),
                one("as_i64", &|| match jsonb::as_i64(i0) { Some(v) => r_bytes(&v.to_be_bytes()), None => r_none() }),
                one("to_i64", &|| match jsonb::to_i64(i0) { Ok(v) => r_bytes(&v.to_be_bytes()), Err(e) => r_err(&e) }),
                one("is_u64", &|| r_bool(jsonb::is_u64(i0))),
                one("as_u64", &|| match jsonb::as_u64(i0) { Some(v) => r_bytes(&v.to_be_bytes()), None => r_none() }),
                one("to_u64", &|| match jsonb::to_u64(i0) { Ok(v) => r_bytes(&v.to_be_bytes()), Err(e) => r_err(&e) }),
                one("is_f64", &|| r_bool(jsonb::is_f64(i0))),
                one("as_f64", &|| match jsonb::as_f64(i0) { Some(v) => r_bytes(&v.to_bits().to_be_bytes()), None => r_none() }),
                one("to_f64", &|| match jsonb::to_f64(i0) { Ok(v) => r_bytes(&v.to_bits().to_be_bytes()), Err(e) => r_err(&e) }),
                one("is_string", &|| r_bool(jsonb::is_string(i0))),
                one("as_str", &|| match jsonb::as_str(i0) { Some(v) => r_str(v.as_bytes()), None => r_none() }),
                one("to_str", &|| match jsonb::to_str(i0) { Ok(v) => r_str(v.as_bytes()), Err(e) => r_err(&e) }),
                one("is_array", &|| r_bool(jsonb::is_array(i0))),
                one("is_object", &|| r_bool(jsonb::is_object(i0))),
            ];
            let mut m = Map::new();
            m.insert("t".into(), json!("casts"));
            for (k, v) in list {
                m.insert(k, v);
            }
            ev.insert("res".into(), J::Object(m));
        }
        "exists_keys" => {
            let keys: Vec<Vec<u8>> = a["keys"].as_array().unwrap().iter().map(j_to_bytes).collect();
            let all = a["all"].as_i64().unwrap_or(0) != 0;
            ev.insert(
                "res".into(),
                guard(|| {
                    if all {
                        r_bool(jsonb::exists_all_keys(i0, keys.iter().map(|k| k.as_slice())))
                    } else {
                        r_bool(jsonb::exists_any_keys(i0, keys.iter().map(|k| k.as_slice())))
                    }
                }),
            );
        }
        "traverse" => {
            let p = a["pred"].clone();
            ev.insert(
                "res".into(),
                guard(|| {
                    if let Some(eq) = p.get("eq") {
                        let want = j_to_bytes(eq);
                        r_bool(jsonb::traverse_check_string(i0, |s| s == want.as_slice()))
                    } else {
                        let b = p["has"].as_u64().unwrap() as u8;
                        r_bool(jsonb::traverse_check_string(i0, |s| s.contains(&b)))
                    }
                }),
            );
        }
        // ------------------------------------------------------------------ editors
        "concat" => buffered(&mut ev, pre, |buf| jsonb::concat(i0, i1, buf)),
        "delete_by_name" => {
            let n = s_of(&a["n"]);
            buffered(&mut ev, pre, |buf| jsonb::delete_by_name(i0, &n, buf))
        }
        "delete_by_index" => {
            let i = a["i"].as_i64().unwrap() as i32;
            buffered(&mut ev, pre, |buf| jsonb::delete_by_index(i0, i, buf))
        }
        "delete_by_keypath" => {
            let kp = kp_from_j(&a["kp"]);
            buffered(&mut ev, pre, |buf| jsonb::delete_by_keypath(i0, kp.iter(), buf))
        }
        "array_insert" => {
            let pos = a["pos"].as_i64().unwrap() as i32;
            buffered(&mut ev, pre, |buf| jsonb::array_insert(i0, pos, i1, buf))
        }
        "object_insert" => {
            let n = s_of(&a["n"]);
            let upd = a["upd"].as_i64().unwrap_or(0) != 0;
            buffered(&mut ev, pre, |buf| jsonb::object_insert(i0, &n, i1, upd, buf))
        }
        "object_delete" | "object_pick" => {
            let keys: Vec<String> = a["keys"].as_array().unwrap().iter().map(s_of).collect();
            let set: BTreeSet<&str> = keys.iter().map(|s| s.as_str()).collect();
            if op == "object_delete" {
                buffered(&mut ev, pre, |buf| jsonb::object_delete(i0, &set, buf))
            } else {
                buffered(&mut ev, pre, |buf| jsonb::object_pick(i0, &set, buf))
            }
        }
        "strip_nulls" => buffered(&mut ev, pre, |buf| jsonb::strip_nulls(i0, buf)),
        "build_array" => {
            buffered(&mut ev, pre.clone(), |buf| jsonb::build_array(inp.iter().map(|b| b.as_slice()), buf));
            // once more with an iterator whose size is not known in advance; same contract
            if let Some(pre) = pre {
                let exact = ev.get("res2").cloned();
                let lazy = guard(|| {
                    let mut buf = pre.clone();
                    let r = jsonb::build_array(inp.iter().map(|b| b.as_slice()).filter(|b| !b.is_empty() || b.is_empty()), &mut buf);
                    json!({"t":"buf","ok": if r.is_ok() {1} else {0},"after":bytes_to_j(&buf)})
                });
                if Some(&lazy) != exact.as_ref() {
                    ev.insert("res2".into(), lazy);
                }
            }
        }
        "build_object" => {
            let keys: Vec<String> = a["keys"].as_array().unwrap().iter().map(s_of).collect();
            buffered(&mut ev, pre, |buf| jsonb::build_object(keys.iter().map(|k| k.as_str()).zip(inp.iter().map(|b| b.as_slice())), buf))
        }
        "array_distinct" => buffered(&mut ev, pre, |buf| jsonb::array_distinct(i0, buf)),
        "array_intersection" => buffered(&mut ev, pre, |buf| jsonb::array_intersection(i0, i1, buf)),
        "array_except" => buffered(&mut ev, pre, |buf| jsonb::array_except(i0, i1, buf)),
        "array_overlap" => {
            ev.insert("res".into(), guard(|| res_bool(jsonb::array_overlap(i0, i1))));
        }
        "compare" => {
            ev.insert("res".into(), guard(|| match jsonb::compare(i0, i1) { Ok(o) => r_ord(o), Err(e) => r_err(&e) }));
        }
        "contains" => {
            ev.insert("res".into(), guard(|| r_bool(jsonb::contains(i0, i1))));
        }
        "comparable" => buffered(&mut ev, pre, |buf| {
            jsonb::convert_to_comparable(i0, buf);
            Ok(())
        }),
        "comparable_all" => {
            // the key of the binary form and of every text spacing of the same document
            let v = &vals[0];
            ev.insert(
                "res".into(),
                guard(|| {
                    let mut ks = Vec::new();
                    let mut k = Vec::new();
                    jsonb::convert_to_comparable(&encode_value(v), &mut k);
                    ks.push(bytes_to_j(&k));
                    for sp in 0..3u64 {
                        let mut k = Vec::new();
                        jsonb::convert_to_comparable(&render_text(v, sp, &fl), &mut k);
                        ks.push(bytes_to_j(&k));
                    }
                    json!({"t":"keyset","k":ks})
                }),
            );
        }
        "comparable2" => {
            ev.insert(
                "res".into(),
                guard(|| {
                    let mut k0 = Vec::new();
                    let mut k1 = Vec::new();
                    jsonb::convert_to_comparable(i0, &mut k0);
                    jsonb::convert_to_comparable(i1, &mut k1);
                    let cmp = guard(|| match jsonb::compare(i0, i1) { Ok(o) => r_ord(o), Err(e) => r_err(&e) });
                    json!({"t":"keys","k0":bytes_to_j(&k0),"k1":bytes_to_j(&k1),"cmp":cmp})
                }),
            );
        }
        // ------------------------------------------------------------------ numbers
        "num" => {
            let n = j_to_num(&a["n"]);
            ev.insert(
                "res".into(),
                guard(|| {
                    let mut enc = Vec::new();
                    let len = match n.compact_encode(&mut enc) { Ok(l) => l as i64, Err(_) => -1 };
                    let dec = guard(|| match Number::decode(&enc) { Ok(m) => { let mut o = num_to_j(&m); o["t"] = json!("num"); o }, Err(e) => r_err(&e) });
                    json!({"t":"numinfo","enc":bytes_to_j(&enc),"len":len,"dec":dec,
                           "i64": match n.as_i64() { Some(v) => json!([bytes_to_j(&v.to_be_bytes())]), None => json!([]) },
                           "u64": match n.as_u64() { Some(v) => json!([bytes_to_j(&v.to_be_bytes())]), None => json!([]) },
                           "f64": match n.as_f64() { Some(v) => json!([f64_j(v)]), None => json!([]) },
                           "disp": bytes_to_j(format!("{}", n).as_bytes())})
                }),
            );
        }
        "num_decode" => {
            ev.insert("res".into(), guard(|| match Number::decode(i0) { Ok(m) => { let mut o = num_to_j(&m); o["t"] = json!("num"); o }, Err(e) => r_err(&e) }));
        }
        "num_cmp" => {
            let x = j_to_num(&a["x"]);
            let y = j_to_num(&a["y"]);
            ev.insert(
                "res".into(),
                guard(|| {
                    let c = x.cmp(&y);
                    let pc = x.partial_cmp(&y);
                    json!({"t":"numcmp","cmp": match c { std::cmp::Ordering::Less => -1, std::cmp::Ordering::Equal => 0, _ => 1 },
                           "eq": if x == y {1} else {0},
                           "pc": match pc { Some(std::cmp::Ordering::Less) => -1, Some(std::cmp::Ordering::Equal) => 0, Some(_) => 1, None => 2 }})
                }),
            );
        }
        // ------------------------------------------------------------------ paths
        "jp_parse" => {
            ev.insert(
                "res".into(),
                guard(|| match parse_json_path(i0) {
                    Ok(p) => {
                        let printed = format!("{}", p);
                        let re = guard(|| match parse_json_path(printed.as_bytes()) { Ok(q) => json!({"t":"path","v":paths_to_j(&q.paths)}), Err(e) => r_err(&e) });
                        json!({"t":"path","v":paths_to_j(&p.paths),"print":bytes_to_j(printed.as_bytes()),"re":re})
                    }
                    Err(e) => r_err(&e),
                }),
            );
        }
        "jp_print" => {
            let jp = JsonPath { paths: paths_from_j(&a["path"]) };
            ev.insert(
                "res".into(),
                guard(|| {
                    let printed = format!("{}", jp);
                    let re = guard(|| match parse_json_path(printed.as_bytes()) { Ok(q) => json!({"t":"path","v":paths_to_j(&q.paths)}), Err(e) => r_err(&e) });
                    json!({"t":"printed","print":bytes_to_j(printed.as_bytes()),"re":re})
                }),
            );
        }
        "kp_parse" => {
            ev.insert(
                "res".into(),
                guard(|| match parse_key_paths(i0) {
                    Ok(k) => {
                        let printed = format!("{}", k);
                        let re = guard(|| match parse_key_paths(printed.as_bytes()) { Ok(q) => json!({"t":"kp","v":kp_to_j(&q)}), Err(e) => r_err(&e) });
                        json!({"t":"kp","v":kp_to_j(&k),"print":bytes_to_j(printed.as_bytes()),"re":re})
                    }
                    Err(e) => r_err(&e),
                }),
            );
        }
        "kp_print" => {
            let k = KeyPaths { paths: kp_from_j(&a["kp"]) };
            ev.insert(
                "res".into(),
                guard(|| {
                    let printed = format!("{}", k);
                    let re = guard(|| match parse_key_paths(printed.as_bytes()) { Ok(q) => json!({"t":"kp","v":kp_to_j(&q)}), Err(e) => r_err(&e) });
                    json!({"t":"printed","print":bytes_to_j(printed.as_bytes()),"re":re})
                }),
            );
        }
        "select" => {
            // one (document, path): all four modes through the Selector API, the convenience
            // functions, existence and predicate match; optionally into pre-filled buffers
            // a script may carry the path as text (then the crate's parser is part of the call) and, next
            // to it, the tree that text was rendered from
            let jp: Result<JsonPath<'static>, J> = if a.get("ptext").is_none() {
                Ok(JsonPath { paths: paths_from_j(&a["path"]) })
            } else {
                let t = j_to_bytes(&a["ptext"]);
                let leaked: &'static [u8] = Box::leak(t.into_boxed_slice());
                match catch_unwind(|| parse_json_path(leaked)) {
                    Ok(Ok(p)) => Ok(p),
                    Ok(Err(e)) => Err(r_err(&e)),
                    Err(_) => Err(json!({"t":"panic","m":"parse_json_path"})),
                }
            };
            match jp {
                Err(e) => {
                    ev.insert("res".into(), json!({"t":"noparse","e":e}));
                }
                Ok(jp) => {
                    let pre_b = pre.clone().unwrap_or_default();
                    let preoffs: Vec<u64> = a.get("preoffs").map(|x| x.as_array().unwrap().iter().map(|v| v.as_u64().unwrap()).collect()).unwrap_or_default();
                    ev.insert("ast".into(), paths_to_j(&jp.paths));
                    // the Selector API takes JSONB only: give it the binary form of the document
                    let bin: Vec<u8> = if vals.is_empty() { i0.to_vec() } else { encode_value(&vals[0]) };
                    let mut m = Map::new();
                    m.insert("t".into(), json!("select"));
                    m.insert("all".into(), select_one(&bin, &jp, Mode::All, &pre_b, &preoffs));
                    m.insert("first".into(), select_one(&bin, &jp, Mode::First, &pre_b, &preoffs));
                    m.insert("array".into(), select_one(&bin, &jp, Mode::Array, &pre_b, &preoffs));
                    m.insert("mixed".into(), select_one(&bin, &jp, Mode::Mixed, &pre_b, &preoffs));
                    m.insert("exists".into(), guard(|| { let sel = Selector::new(jp.clone(), Mode::Mixed); res_bool(sel.exists(&bin)) }));
                    m.insert("pmatch".into(), guard(|| { let sel = Selector::new(jp.clone(), Mode::First); res_bool(sel.predicate_match(&bin)) }));
                    // convenience functions see the representation the script asked for
                    let conv = |f: &dyn Fn(&mut Vec<u8>, &mut Vec<u64>) -> Result<(), jsonb::Error>| -> J {
                        guard(|| {
                            let mut data = pre_b.clone();
                            let mut offs = preoffs.clone();
                            match f(&mut data, &mut offs) {
                                Ok(()) => json!({"t":"sel","data":bytes_to_j(&data),"offs":offs}),
                                Err(e) => json!({"t":"err","e":err_name(&e),"data":bytes_to_j(&data),"offs":offs}),
                            }
                        })
                    };
                    m.insert("f_mixed".into(), conv(&|d, o| jsonb::get_by_path(i0, jp.clone(), d, o)));
                    m.insert("f_first".into(), conv(&|d, o| jsonb::get_by_path_first(i0, jp.clone(), d, o)));
                    m.insert("f_array".into(), conv(&|d, o| jsonb::get_by_path_array(i0, jp.clone(), d, o)));
                    m.insert("f_exists".into(), guard(|| res_bool(jsonb::path_exists(i0, jp.clone()))));
                    m.insert("f_match".into(), guard(|| res_bool(jsonb::path_match(i0, jp.clone()))));
                    ev.insert("res".into(), J::Object(m));
                }
            }
        }
        // ------------------------------------------------------------------ serde
        "serde_raw" => {
            ev.insert(
                "res".into(),
                guard(|| {
                    let a1 = guard(|| match jsonb::to_serde_json(i0) { Ok(j) => json!({"t":"serde","v":serde_to_j(&j)}), Err(e) => r_err(&e) });
                    let a2 = guard(|| match jsonb::to_serde_json_object(i0) {
                        Ok(Some(m)) => json!({"t":"serde","v":serde_to_j(&J::Object(m))}),
                        Ok(None) => r_none(),
                        Err(e) => r_err(&e),
                    });
                    json!({"t":"serderaw","bytes":a1,"object":a2})
                }),
            );
        }
        "serde" => {
            let v = vals.get(0).cloned();
            ev.insert(
                "res".into(),
                guard(|| {
                    let a1 = guard(|| match jsonb::to_serde_json(i0) { Ok(j) => json!({"t":"serde","v":serde_to_j(&j)}), Err(e) => r_err(&e) });
                    let a2 = guard(|| match jsonb::to_serde_json_object(i0) {
                        Ok(Some(m)) => json!({"t":"serde","v":serde_to_j(&J::Object(m))}),
                        Ok(None) => r_none(),
                        Err(e) => r_err(&e),
                    });
                    // tree -> serde -> tree
                    let (a3, a4) = match &v {
                        Some(v) => {
                            let vv = v.clone();
                            let a3 = guard(|| { let j: serde_json::Value = vv.clone().into(); json!({"t":"serde","v":serde_to_j(&j)}) });
                            let vv2 = v.clone();
                            let a4 = guard(|| { let j: serde_json::Value = vv2.clone().into(); let back: Value = (&j).into(); r_doc(&back) });
                            (a3, a4)
                        }
                        None => (r_none(), r_none()),
                    };
                    // bytes -> serde -> tree
                    let a5 = guard(|| match jsonb::to_serde_json(i0) { Ok(j) => { let back: Value = j.into(); r_doc(&back) }, Err(e) => r_err(&e) });
                    // tree -> the crate's own encoder -> serde
                    let a6 = match &v {
                        Some(v) => { let vv = v.clone(); guard(|| match jsonb::to_serde_json(&vv.to_vec()) { Ok(j) => json!({"t":"serde","v":serde_to_j(&j)}), Err(e) => r_err(&e) }) }
                        None => J::Null,
                    };
                    let mut m = json!({"t":"serdeinfo","bytes":a1,"object":a2,"tree":a3,"tree_back":a4,"bytes_back":a5,"text":bytes_to_j(jsonb::to_string(i0).as_bytes())});
                    if !a6.is_null() { m["enc"] = a6; }
                    m
                }),
            );
        }
        "chain" => {
            // a chain of calls: the crate's own output bytes are threaded from call to call and
            // every result is appended to one shared buffer
            let res = guard(|| {
                let mut regs: Vec<Vec<u8>> = s["start"].as_array().unwrap().iter().map(|t| encode_value(&tree_to_value(t))).collect();
                let start_j: Vec<J> = regs.iter().map(|b| bytes_to_j(b)).collect();
                let mut buf: Vec<u8> = Vec::new();
                let mut outs: Vec<J> = Vec::new();
                for st in s["steps"].as_array().unwrap() {
                    let f = st["f"].as_str().unwrap();
                    let src: Vec<usize> = st["src"].as_array().unwrap().iter().map(|x| x.as_u64().unwrap() as usize - 1).collect();
                    let dst = st["dst"].as_u64().unwrap() as usize - 1;
                    let a = &st["a"];
                    let x = regs[src[0]].clone();
                    let y = if src.len() > 1 { regs[src[1]].clone() } else { Vec::new() };
                    let before = buf.len();
                    let mut text_out: Option<Vec<u8>> = None;
                    let out = guard(|| {
                        let mut b = std::mem::take(&mut buf);
                        // Ok(Some(())) appended; Ok(None) nothing; Err
                        let r: Result<Option<()>, jsonb::Error> = (|| {
                            match f {
                                "concat" => jsonb::concat(&x, &y, &mut b).map(Some),
                                "delete_by_name" => jsonb::delete_by_name(&x, &s_of(&a["n"]), &mut b).map(Some),
                                "delete_by_index" => jsonb::delete_by_index(&x, a["i"].as_i64().unwrap() as i32, &mut b).map(Some),
                                "delete_by_keypath" => { let kp = kp_from_j(&a["kp"]); jsonb::delete_by_keypath(&x, kp.iter(), &mut b).map(Some) }
                                "array_insert" => jsonb::array_insert(&x, a["pos"].as_i64().unwrap() as i32, &y, &mut b).map(Some),
                                "object_insert" => jsonb::object_insert(&x, &s_of(&a["n"]), &y, a["upd"].as_i64().unwrap() != 0, &mut b).map(Some),
                                "object_delete" | "object_pick" => {
                                    let keys: Vec<String> = a["keys"].as_array().unwrap().iter().map(s_of).collect();
                                    let set: BTreeSet<&str> = keys.iter().map(|s| s.as_str()).collect();
                                    if f == "object_delete" { jsonb::object_delete(&x, &set, &mut b).map(Some) } else { jsonb::object_pick(&x, &set, &mut b).map(Some) }
                                }
                                "strip_nulls" => jsonb::strip_nulls(&x, &mut b).map(Some),
                                "build_array" => jsonb::build_array([x.as_slice(), y.as_slice()], &mut b).map(Some),
                                "build_object" => {
                                    let keys: Vec<String> = a["keys"].as_array().unwrap().iter().map(s_of).collect();
                                    jsonb::build_object([(keys[0].as_str(), x.as_slice()), (keys[1].as_str(), y.as_slice())], &mut b).map(Some)
                                }
                                "array_distinct" => jsonb::array_distinct(&x, &mut b).map(Some),
                                "array_intersection" => jsonb::array_intersection(&x, &y, &mut b).map(Some),
                                "array_except" => jsonb::array_except(&x, &y, &mut b).map(Some),
                                "get_by_index" => Ok(jsonb::get_by_index(&x, a["i"].as_u64().unwrap() as usize).map(|v| b.extend_from_slice(&v))),
                                "get_by_name" => Ok(jsonb::get_by_name(&x, &s_of(&a["n"]), a["ic"].as_i64().unwrap() != 0).map(|v| b.extend_from_slice(&v))),
                                "get_by_keypath" => { let kp = kp_from_j(&a["kp"]); Ok(jsonb::get_by_keypath(&x, kp.iter()).map(|v| b.extend_from_slice(&v))) }
                                "object_keys" => Ok(jsonb::object_keys(&x).map(|v| b.extend_from_slice(&v))),
                                "to_string" | "to_pretty_string" => {
                                    // the text goes into the register, not into the shared buffer
                                    text_out = Some(if f == "to_string" { jsonb::to_string(&x) } else { jsonb::to_pretty_string(&x) }.into_bytes());
                                    Ok(None)
                                }
                                "select" => {
                                    // the convenience functions: they accept JSONB and JSON text alike
                                    let jp = JsonPath { paths: paths_from_j(&a["path"]) };
                                    let mut offs = Vec::new();
                                    let l0 = b.len();
                                    let r = match a["mode"].as_str().unwrap() {
                                        "first" => jsonb::get_by_path_first(&x, jp, &mut b, &mut offs),
                                        "array" => jsonb::get_by_path_array(&x, jp, &mut b, &mut offs),
                                        _ => jsonb::get_by_path(&x, jp, &mut b, &mut offs),
                                    };
                                    r.map(|()| if b.len() > l0 { Some(()) } else { None })
                                }
                                other => panic!("unknown chain step {other}"),
                            }
                        })();
                        buf = b;
                        match r {
                            Ok(Some(())) => json!({"t":"bytes"}),
                            Ok(None) => json!({"t":"none"}),
                            Err(e) => r_err(&e),
                        }
                    });
                    let mut out = out;
                    if let Some(t) = text_out.take() {
                        out = json!({"t":"text","v":bytes_to_j(&t)});
                        regs[dst] = t;
                    }
                    if out["t"] == "bytes" {
                        let appended = buf[before..].to_vec();
                        out["v"] = bytes_to_j(&appended);
                        regs[dst] = appended;
                    }
                    out["buflen"] = json!(buf.len());
                    outs.push(out);
                }
                json!({"t":"chain","start":start_j,"outs":outs,"buf":bytes_to_j(&buf)})
            });
            ev.insert("res".into(), res);
        }
        "deep" => {
            // one probe in a child process; its death by a signal is the recorded outcome
            let exe = std::env::current_exe().expect("exe");
            let out = std::process::Command::new(exe)
                .args(["deep", a["routine"].as_str().unwrap(), a["shape"].as_str().unwrap(), &a["depth"].as_u64().unwrap().to_string()])
                .output();
            let res = match out {
                Ok(o) => {
                    let s = String::from_utf8_lossy(&o.stdout).trim().to_string();
                    if o.status.success() && (s == "ok" || s == "err") {
                        json!({"t": s})
                    } else if s == "panic" {
                        json!({"t":"panic","m":"probe panicked"})
                    } else {
                        use std::os::unix::process::ExitStatusExt;
                        json!({"t":"crash","signal": o.status.signal().unwrap_or(0), "code": o.status.code().unwrap_or(-1)})
                    }
                }
                Err(e) => json!({"t":"harness-error","m":e.to_string()}),
            };
            ev.insert("res".into(), res);
        }
        other => {
            ev.insert("res".into(), json!({"t":"unknown-op","m":other}));
        }
    }
    J::Object(ev)
}
