// jsonb verification harness: executes scripts against the real crate and logs what happened.
//   exec  <script.ndjson> <trace.ndjson>     run every script line, one event per line
//   drive <kind> <seed> <count> <script.ndjson>   write a seeded random script (see drive.rs)
//   deep  <op> <shape> <depth>               one deep-nesting probe (run as a child process)
mod deep;
mod drive;
mod ops;
mod tree;

use std::io::{BufRead, BufReader, BufWriter, Write};

fn main() {
    // panics of the code under test are data (recorded per call); HARNESS_PANICS=1 shows them for debugging
    if std::env::var_os("HARNESS_PANICS").is_none() {
        std::panic::set_hook(Box::new(|_| {}));
    }
    let args: Vec<String> = std::env::args().collect();
    match args.get(1).map(|s| s.as_str()) {
        Some("exec") => {
            let inp = BufReader::new(std::fs::File::open(&args[2]).expect("open script"));
            let mut out = BufWriter::new(std::fs::File::create(&args[3]).expect("create trace"));
            let mut n = 0u64;
            for line in inp.lines() {
                let line = line.expect("read");
                if line.trim().is_empty() {
                    continue;
                }
                let s: serde_json::Value = serde_json::from_str(&line).expect("script json");
                let ev = match std::panic::catch_unwind(|| ops::exec(&s)) {
                    Ok(ev) => ev,
                    Err(_) => {
                        // the harness itself failed on this script line: a tool error, never a verdict
                        let mut o = s.as_object().cloned().unwrap_or_default();
                        o.insert("res".into(), serde_json::json!({"t":"harness-error"}));
                        serde_json::Value::Object(o)
                    }
                };
                serde_json::to_writer(&mut out, &ev).unwrap();
                out.write_all(b"\n").unwrap();
                n += 1;
            }
            out.flush().unwrap();
            eprintln!("executed {n} script lines");
        }
        Some("drive") => {
            let seed: u64 = args[3].parse().expect("seed");
            let count: usize = args[4].parse().expect("count");
            let lines = drive::script(&args[2], seed, count);
            let mut out = BufWriter::new(std::fs::File::create(&args[5]).expect("create script"));
            for l in lines {
                serde_json::to_writer(&mut out, &l).unwrap();
                out.write_all(b"\n").unwrap();
            }
            out.flush().unwrap();
        }
        Some("deep") => {
            deep::run_child(&args[2], &args[3], args[4].parse().expect("depth"));
        }
        _ => {
            eprintln!("usage: exec <script> <trace>");
            std::process::exit(2);
        }
    }
}
