// Tagged-tree <-> jsonb::Value conversion and the harness' own JSON text renderer.
// Nothing here decides anything: it only moves data between the trace format and the crate.
use jsonb::{Number, Value};
use serde_json::{json, Value as J};
use std::borrow::Cow;
use std::collections::BTreeMap;

pub fn bytes_to_j(b: &[u8]) -> J {
    J::Array(b.iter().map(|x| J::from(*x as u64)).collect())
}

pub fn j_to_bytes(j: &J) -> Vec<u8> {
    j.as_array()
        .expect("byte array")
        .iter()
        .map(|x| x.as_u64().expect("byte") as u8)
        .collect()
}

pub fn num_to_j(n: &Number) -> J {
    match n {
        Number::UInt64(v) => json!({"r":"u","b":bytes_to_j(&v.to_be_bytes())}),
        Number::Int64(v) => json!({"r":"i","b":bytes_to_j(&v.to_be_bytes())}),
        Number::Float64(v) => json!({"r":"f","b":bytes_to_j(&v.to_bits().to_be_bytes())}),
    }
}

pub fn j_to_num(j: &J) -> Number {
    let b = j_to_bytes(&j["b"]);
    let a: [u8; 8] = b.as_slice().try_into().expect("8 bytes");
    match j["r"].as_str().expect("rep") {
        "u" => Number::UInt64(u64::from_be_bytes(a)),
        "i" => Number::Int64(i64::from_be_bytes(a)),
        "f" => Number::Float64(f64::from_bits(u64::from_be_bytes(a))),
        r => panic!("bad rep {r}"),
    }
}

pub fn tree_to_value(j: &J) -> Value<'static> {
    match j["k"].as_str().expect("kind") {
        "null" => Value::Null,
        "true" => Value::Bool(true),
        "false" => Value::Bool(false),
        "num" => Value::Number(j_to_num(j)),
        "str" => Value::String(Cow::Owned(
            String::from_utf8(j_to_bytes(&j["s"])).expect("utf8 string in script"),
        )),
        "arr" => Value::Array(j["a"].as_array().unwrap().iter().map(tree_to_value).collect()),
        "obj" => {
            let mut m = BTreeMap::new();
            for kv in j["o"].as_array().unwrap() {
                let k = String::from_utf8(j_to_bytes(&kv[0])).expect("utf8 key in script");
                m.insert(k, tree_to_value(&kv[1]));
            }
            Value::Object(m)
        }
        k => panic!("bad kind {k}"),
    }
}

pub fn value_to_tree(v: &Value) -> J {
    match v {
        Value::Null => json!({"k":"null"}),
        Value::Bool(true) => json!({"k":"true"}),
        Value::Bool(false) => json!({"k":"false"}),
        Value::Number(n) => {
            let mut o = num_to_j(n);
            o["k"] = json!("num");
            o
        }
        Value::String(s) => json!({"k":"str","s":bytes_to_j(s.as_bytes())}),
        Value::Array(a) => json!({"k":"arr","a":a.iter().map(value_to_tree).collect::<Vec<_>>()}),
        Value::Object(o) => json!({"k":"obj","o":o.iter().map(|(k,v)| json!([bytes_to_j(k.as_bytes()), value_to_tree(v)])).collect::<Vec<_>>()}),
    }
}

// ---------------------------------------------------------------------------------------------
// The harness' own encoder, used to build the *inputs* of byte-level functions so that a
// check of one function does not depend on the crate's encoder.  The validator re-checks every
// input against spec/Jsonb.tla Encode, so a mistake here is a tool error, never a verdict.
pub fn compact_num(n: &Number, out: &mut Vec<u8>) {
    match n {
        Number::UInt64(v) => {
            if *v == 0 { out.push(0x00); }
            else if *v <= 0xff { out.push(0x50); out.push(*v as u8); }
            else if *v <= 0xffff { out.push(0x50); out.extend_from_slice(&(*v as u16).to_be_bytes()); }
            else if *v <= 0xffff_ffff { out.push(0x50); out.extend_from_slice(&(*v as u32).to_be_bytes()); }
            else { out.push(0x50); out.extend_from_slice(&v.to_be_bytes()); }
        }
        Number::Int64(v) => {
            if *v == 0 { out.push(0x00); }
            else if *v >= -128 && *v <= 127 { out.push(0x40); out.push(*v as i8 as u8); }
            else if *v >= -32768 && *v <= 32767 { out.push(0x40); out.extend_from_slice(&(*v as i16).to_be_bytes()); }
            else if *v >= -2147483648 && *v <= 2147483647 { out.push(0x40); out.extend_from_slice(&(*v as i32).to_be_bytes()); }
            else { out.push(0x40); out.extend_from_slice(&v.to_be_bytes()); }
        }
        Number::Float64(f) => {
            if f.is_nan() { out.push(0x10); }
            else if *f == f64::INFINITY { out.push(0x20); }
            else if *f == f64::NEG_INFINITY { out.push(0x30); }
            else { out.push(0x60); out.extend_from_slice(&f.to_bits().to_be_bytes()); }
        }
    }
}

// returns (entry type nibble << 28, payload)
fn enc_entry(v: &Value) -> (u32, Vec<u8>) {
    match v {
        Value::Null => (0x0000_0000, vec![]),
        Value::Bool(false) => (0x3000_0000, vec![]),
        Value::Bool(true) => (0x4000_0000, vec![]),
        Value::String(s) => (0x1000_0000, s.as_bytes().to_vec()),
        Value::Number(n) => { let mut p = Vec::new(); compact_num(n, &mut p); (0x2000_0000, p) }
        Value::Array(_) | Value::Object(_) => (0x5000_0000, encode_value(v)),
    }
}

pub fn encode_value(v: &Value) -> Vec<u8> {
    let mut out = Vec::new();
    match v {
        Value::Array(a) => {
            out.extend_from_slice(&(0x8000_0000u32 | a.len() as u32).to_be_bytes());
            let es: Vec<(u32, Vec<u8>)> = a.iter().map(enc_entry).collect();
            for (t, p) in &es { out.extend_from_slice(&(t | p.len() as u32).to_be_bytes()); }
            for (_, p) in &es { out.extend_from_slice(p); }
        }
        Value::Object(o) => {
            out.extend_from_slice(&(0x4000_0000u32 | o.len() as u32).to_be_bytes());
            let es: Vec<(u32, Vec<u8>)> = o.values().map(enc_entry).collect();
            for k in o.keys() { out.extend_from_slice(&(0x1000_0000u32 | k.len() as u32).to_be_bytes()); }
            for (t, p) in &es { out.extend_from_slice(&(t | p.len() as u32).to_be_bytes()); }
            for k in o.keys() { out.extend_from_slice(k.as_bytes()); }
            for (_, p) in &es { out.extend_from_slice(p); }
        }
        _ => {
            out.extend_from_slice(&0x2000_0000u32.to_be_bytes());
            let (t, p) = enc_entry(v);
            out.extend_from_slice(&(t | p.len() as u32).to_be_bytes());
            out.extend_from_slice(&p);
        }
    }
    out
}

// ---------------------------------------------------------------------------------------------
// The harness' own text renderer (mirrored by spec/JsonText.tla RenderText).  Token join:
//   sp = 0: no whitespace, minimal escapes
//   sp = 1: "\n" before, one space between tokens, "\n" after, minimal escapes
//   sp = 2: "\t" before, "\r\n " between tokens, " " after, maximal escapes (\uXXXX for non-ASCII)
// Float lexemes come from `fl` (list of [bits8, lexeme]); they are checked by the spec.

pub fn float_lexeme(fl: &J, bits: u64) -> Vec<u8> {
    let want = bytes_to_j(&bits.to_be_bytes());
    if let Some(a) = fl.as_array() {
        for p in a {
            if p[0] == want {
                return j_to_bytes(&p[1]);
            }
        }
    }
    panic!("no lexeme for float bits {bits:016x}");
}

fn hex4(out: &mut Vec<u8>, u: u32, upper: bool) {
    let s = if upper { format!("\\u{:04X}", u) } else { format!("\\u{:04x}", u) };
    out.extend_from_slice(s.as_bytes());
}

pub fn render_string(s: &str, esc: u8, out: &mut Vec<u8>) {
    out.push(b'"');
    for c in s.chars() {
        let u = c as u32;
        if esc == 0 {
            match c {
                '"' => out.extend_from_slice(b"\\\""),
                '\\' => out.extend_from_slice(b"\\\\"),
                _ if u < 0x20 => hex4(out, u, true),
                _ => {
                    let mut b = [0u8; 4];
                    out.extend_from_slice(c.encode_utf8(&mut b).as_bytes());
                }
            }
        } else {
            match c {
                '"' => out.extend_from_slice(b"\\\""),
                '\\' => out.extend_from_slice(b"\\\\"),
                '/' => out.extend_from_slice(b"\\/"),
                '\u{8}' => out.extend_from_slice(b"\\b"),
                '\u{c}' => out.extend_from_slice(b"\\f"),
                '\n' => out.extend_from_slice(b"\\n"),
                '\r' => out.extend_from_slice(b"\\r"),
                '\t' => out.extend_from_slice(b"\\t"),
                _ if u < 0x20 || u == 0x7f => hex4(out, u, false),
                _ if u < 0x80 => out.push(u as u8),
                _ if u < 0x10000 => hex4(out, u, false),
                _ => {
                    let v = u - 0x10000;
                    hex4(out, 0xD800 + (v >> 10), false);
                    hex4(out, 0xDC00 + (v & 0x3ff), false);
                }
            }
        }
    }
    out.push(b'"');
}

fn tokens(v: &Value, esc: u8, fl: &J, out: &mut Vec<Vec<u8>>) {
    match v {
        Value::Null => out.push(b"null".to_vec()),
        Value::Bool(true) => out.push(b"true".to_vec()),
        Value::Bool(false) => out.push(b"false".to_vec()),
        Value::Number(Number::UInt64(n)) => out.push(n.to_string().into_bytes()),
        Value::Number(Number::Int64(n)) => out.push(n.to_string().into_bytes()),
        Value::Number(Number::Float64(f)) => out.push(float_lexeme(fl, f.to_bits())),
        Value::String(s) => {
            let mut t = Vec::new();
            render_string(s, esc, &mut t);
            out.push(t);
        }
        Value::Array(a) => {
            out.push(b"[".to_vec());
            for (i, x) in a.iter().enumerate() {
                if i > 0 {
                    out.push(b",".to_vec());
                }
                tokens(x, esc, fl, out);
            }
            out.push(b"]".to_vec());
        }
        Value::Object(o) => {
            out.push(b"{".to_vec());
            for (i, (k, x)) in o.iter().enumerate() {
                if i > 0 {
                    out.push(b",".to_vec());
                }
                let mut t = Vec::new();
                render_string(k, esc, &mut t);
                out.push(t);
                out.push(b":".to_vec());
                tokens(x, esc, fl, out);
            }
            out.push(b"}".to_vec());
        }
    }
}

pub fn render_text(v: &Value, sp: u64, fl: &J) -> Vec<u8> {
    let (pre, sep, post, esc): (&[u8], &[u8], &[u8], u8) = match sp {
        0 => (b"", b"", b"", 0),
        1 => (b"\n", b" ", b"\n", 0),
        _ => (b"\t", b"\r\n ", b" ", 1),
    };
    let mut toks = Vec::new();
    tokens(v, esc, fl, &mut toks);
    let mut out = pre.to_vec();
    for (i, t) in toks.iter().enumerate() {
        if i > 0 {
            out.extend_from_slice(sep);
        }
        out.extend_from_slice(t);
    }
    out.extend_from_slice(post);
    out
}
