// Seeded random script generator: inputs the bounded TLC universes do not reach (full 64-bit
// numbers, strings from all planes, deeper and wider documents, arbitrary bytes).  It only writes
// scripts; the verdict on what the crate does with them is TLC's (spec/Trace.tla).
use crate::tree::*;
use jsonb::{Number, Value};
use rand::rngs::SmallRng;
use rand::{Rng, SeedableRng};
use serde_json::{json, Value as J};
use std::collections::BTreeMap;

pub struct Gen {
    pub r: SmallRng,
    pub fl: Vec<(u64, Vec<u8>)>,
    pub finite: bool,
    pub nice_floats: bool,
}

const KEY_POOL: &[&str] = &["", "a", "A", "b", "B", "ab", "aB", "Ab", "id", "Name", "name", "é", "É", "k1", "😀", "a b", "\"", "z\u{1}", "key", "KEY", "Key", "0", "1", "-1", "2"];
const STR_POOL: &[&str] = &["", "a", "ab", "true", "FALSE", "12", "-7", "1.5", "null", "é", "😀", "\u{2028}", "a\"b", "back\\slash", "\n", "\u{0}", "\u{7f}", "x/y", "\u{fffd}", "\u{10ffff}", "\u{e000}", "\u{d7ff}"];

impl Gen {
    pub fn new(seed: u64) -> Self {
        Gen { r: SmallRng::seed_from_u64(seed ^ 0x9e37_79b9_7f4a_7c15), fl: Vec::new(), finite: false, nice_floats: true }
    }
    fn pick<'a, T>(&mut self, xs: &'a [T]) -> &'a T {
        &xs[self.r.gen_range(0..xs.len())]
    }
    pub fn string(&mut self) -> String {
        match self.r.gen_range(0..10) {
            0..=4 => self.pick(STR_POOL).to_string(),
            5 => {
                let n = self.r.gen_range(0..6);
                (0..n).map(|_| self.r.gen_range(b'a'..=b'e') as char).collect()
            }
            _ => {
                let n = self.r.gen_range(1..6);
                (0..n)
                    .map(|_| match self.r.gen_range(0..8) {
                        0 => char::from_u32(self.r.gen_range(0..0x20)).unwrap(),
                        1 => char::from_u32(self.r.gen_range(0x20..0x7f)).unwrap(),
                        2 => char::from_u32(self.r.gen_range(0x80..0x800)).unwrap(),
                        3 => char::from_u32(self.r.gen_range(0x800..0xd800)).unwrap(),
                        4 => char::from_u32(self.r.gen_range(0xe000..0x10000)).unwrap(),
                        5 => char::from_u32(self.r.gen_range(0x10000..0x110000)).unwrap(),
                        6 => *self.pick(&['"', '\\', '/', '\u{7f}', '\u{2028}', '\u{2029}', '\u{d7ff}', '\u{e000}', '\u{fffd}', '\u{10ffff}']),
                        _ => self.r.gen_range(b'a'..=b'z') as char,
                    })
                    .collect()
            }
        }
    }
    pub fn key(&mut self) -> String {
        if self.r.gen_range(0..4) == 0 { self.string() } else { self.pick(KEY_POOL).to_string() }
    }
    pub fn u64v(&mut self) -> u64 {
        match self.r.gen_range(0..8) {
            0 => self.r.gen(),
            1 => { let w = *self.pick(&[8u32, 16, 32, 53, 63, 64]); let b: u64 = if w == 64 { 0 } else { 1u64 << w }; b.wrapping_add(self.r.gen_range(0..5)).wrapping_sub(2) }
            2 => self.r.gen_range(0..256),
            3 => self.r.gen_range(0..65536),
            4 => self.r.gen::<u32>() as u64,
            5 => (1u64 << 53) + self.r.gen_range(0..1024) - 512,
            6 => self.r.gen::<u64>() >> self.r.gen_range(0..64),
            _ => self.r.gen_range(0..10),
        }
    }
    pub fn i64v(&mut self) -> i64 {
        match self.r.gen_range(0..7) {
            0 => self.r.gen(),
            1 => { let w = *self.pick(&[7u32, 15, 31, 53, 62]); let b = 1i64 << w; let v = b + self.r.gen_range(0..5) - 2; if self.r.gen() { v } else { -v } }
            2 => self.r.gen_range(-129..130),
            3 => self.r.gen_range(-32770..32770),
            4 => self.r.gen::<i32>() as i64,
            5 => *self.pick(&[i64::MIN, i64::MIN + 1, i64::MAX, i64::MAX - 1, -1, 0, 1]),
            _ => -((self.r.gen::<u64>() >> self.r.gen_range(1..64)) as i64),
        }
    }
    pub fn f64v(&mut self) -> f64 {
        loop {
            let f = match self.r.gen_range(0..9) {
                0 if !self.nice_floats => f64::from_bits(self.r.gen()),
                1 => self.r.gen_range(-1000..1000) as f64 / *self.pick(&[1.0, 2.0, 4.0, 8.0, 10.0, 100.0]),
                2 => (self.u64v() as f64) * if self.r.gen() { 1.0 } else { -1.0 },
                3 => *self.pick(&[0.0, -0.0, 1.0, -1.0, 1.5, 0.1, 9007199254740992.0, 9007199254740994.0, 18446744073709551616.0, -9223372036854775808.0, 1e15, 1e16, 1e21, 1e-7, 123456.789]),
                4 if !self.finite => *self.pick(&[f64::NAN, f64::INFINITY, f64::NEG_INFINITY, f64::from_bits(0x7ff8_0000_0000_0001)]),
                5 if !self.nice_floats => *self.pick(&[f64::MAX, f64::MIN_POSITIVE, 5e-324, 1e300, 1e-300, f64::MIN, 2.2250738585072009e-308]),
                6 => self.r.gen::<f64>(),
                7 => { let e = self.r.gen_range(-20..20); self.r.gen::<f64>() * 10f64.powi(e) }
                _ => self.r.gen_range(-100000.0..100000.0),
            };
            if self.finite && !f.is_finite() { continue; }
            return f;
        }
    }
    pub fn number(&mut self) -> Number {
        match self.r.gen_range(0..3) {
            0 => Number::UInt64(self.u64v()),
            1 => Number::Int64(self.i64v()),
            _ => {
                let f = self.f64v();
                if f.is_finite() {
                    let lx = format!("{:?}", f);
                    if !self.fl.iter().any(|(b, _)| *b == f.to_bits()) {
                        self.fl.push((f.to_bits(), lx.into_bytes()));
                    }
                }
                Number::Float64(f)
            }
        }
    }
    pub fn scalar(&mut self) -> Value<'static> {
        match self.r.gen_range(0..8) {
            0 => Value::Null,
            1 => Value::Bool(self.r.gen()),
            2..=4 => Value::Number(self.number()),
            _ => Value::String(self.string().into()),
        }
    }
    pub fn doc(&mut self, depth: u32, width: usize) -> Value<'static> {
        if depth == 0 || self.r.gen_range(0..5) == 0 {
            return self.scalar();
        }
        let n = match self.r.gen_range(0..6) { 0 => 0, 1 => 1, _ => self.r.gen_range(0..=width) };
        if self.r.gen() {
            // now and then an element is a "twin" of its predecessor: the same value in another
            // encoding, an identical copy, or a value of another type with the same payload bytes
            let mut a: Vec<Value<'static>> = Vec::with_capacity(n);
            for _ in 0..n {
                if !a.is_empty() && self.r.gen_range(0..5) == 0 {
                    let t = self.twin(&a[a.len() - 1].clone());
                    if self.r.gen_range(0..4) == 0 { let at = a.len() - 1; a.insert(at, t); } else { a.push(t); }
                } else {
                    a.push(self.doc(depth - 1, width));
                }
            }
            Value::Array(a)
        } else {
            let mut m = BTreeMap::new();
            for _ in 0..n {
                let k = self.key();
                m.insert(k, self.doc(depth - 1, width));
            }
            Value::Object(m)
        }
    }
    fn register_floats(&mut self, v: &Value) {
        match v {
            Value::Number(Number::Float64(f)) if f.is_finite() => {
                if !self.fl.iter().any(|(b, _)| *b == f.to_bits()) {
                    self.fl.push((f.to_bits(), format!("{:?}", f).into_bytes()));
                }
            }
            Value::Array(a) => for x in a { self.register_floats(x); },
            Value::Object(o) => for x in o.values() { self.register_floats(x); },
            _ => {}
        }
    }
    pub fn twin(&mut self, v: &Value<'static>) -> Value<'static> {
        let t = self.twin0(v);
        self.register_floats(&t);
        t
    }
    fn twin0(&mut self, v: &Value<'static>) -> Value<'static> {
        match self.r.gen_range(0..4) {
            0 => v.clone(),
            1 => match v {
                Value::Number(n) => {
                    let mut p = Vec::new();
                    crate::tree::compact_num(n, &mut p);
                    match String::from_utf8(p) { Ok(s) => Value::String(s.into()), Err(_) => v.clone() }
                }
                Value::Null | Value::Bool(_) => Value::String("".into()),
                Value::String(s) if s.is_empty() => Value::Null,
                _ => deep_reencode(v),
            },
            _ => deep_reencode(v),
        }
    }
    pub fn fl_json(&self) -> J {
        J::Array(self.fl.iter().map(|(b, l)| json!([bytes_to_j(&b.to_be_bytes()), bytes_to_j(l)])).collect())
    }
    // a document related to v: equal values re-encoded, elements dropped / duplicated / reordered,
    // a leaf changed, one level wrapped or unwrapped
    pub fn mutate(&mut self, v: &Value<'static>) -> Value<'static> {
        match v {
            Value::Number(n) => match self.r.gen_range(0..4) {
                0 => Value::Number(reencode(n)),
                1 => Value::Number(self.number()),
                _ => v.clone(),
            },
            Value::Array(a) => {
                let mut a = a.clone();
                match self.r.gen_range(0..8) {
                    0 if !a.is_empty() => { let i = self.r.gen_range(0..a.len()); a.remove(i); }
                    1 if !a.is_empty() => { let i = self.r.gen_range(0..a.len()); let x = a[i].clone(); a.push(x); }
                    2 if a.len() > 1 => { let i = self.r.gen_range(0..a.len()); let j = self.r.gen_range(0..a.len()); a.swap(i, j); }
                    3 if !a.is_empty() => { let i = self.r.gen_range(0..a.len()); a[i] = self.mutate(&a[i].clone()); }
                    4 => { a.push(self.scalar()); }
                    5 => return Value::Array(vec![Value::Array(a)]),
                    6 if !a.is_empty() => return a[0].clone(),
                    _ => { for x in a.iter_mut() { if self.r.gen_range(0..3) == 0 { *x = self.mutate(&x.clone()); } } }
                }
                Value::Array(a)
            }
            Value::Object(o) => {
                let mut o = o.clone();
                let keys: Vec<String> = o.keys().cloned().collect();
                match self.r.gen_range(0..6) {
                    0 if !keys.is_empty() => { let k = self.pick(&keys).clone(); o.remove(&k); }
                    1 if !keys.is_empty() => { let k = self.pick(&keys).clone(); let x = self.mutate(&o[&k].clone()); o.insert(k, x); }
                    2 => { let k = self.key(); let x = self.scalar(); o.insert(k, x); }
                    3 if !keys.is_empty() => { let k = self.pick(&keys).clone(); return o[&k].clone(); }
                    _ => { for k in keys { if self.r.gen_range(0..3) == 0 { let x = self.mutate(&o[&k].clone()); o.insert(k, x); } } }
                }
                Value::Object(o)
            }
            Value::String(s) => match self.r.gen_range(0..4) {
                0 => Value::String(format!("{}{}", s, self.string()).into()),
                1 => { let t: String = s.chars().take(s.chars().count().saturating_sub(1)).collect(); Value::String(t.into()) }
                _ => v.clone(),
            },
            _ => if self.r.gen_range(0..4) == 0 { self.scalar() } else { v.clone() },
        }
    }
}

// the same numeric value in another representation when there is one
fn reencode(n: &Number) -> Number {
    match n {
        Number::UInt64(v) => {
            if *v <= i64::MAX as u64 && *v % 2 == 0 { Number::Int64(*v as i64) }
            else if (*v as f64) as u64 == *v && *v < (1u64 << 53) { Number::Float64(*v as f64) }
            else { n.clone() }
        }
        Number::Int64(v) => {
            if *v >= 0 { Number::UInt64(*v as u64) }
            else if (*v as f64) as i64 == *v && v.unsigned_abs() < (1u64 << 53) { Number::Float64(*v as f64) }
            else { n.clone() }
        }
        Number::Float64(f) => {
            if f.fract() == 0.0 && f.abs() < 9.0e15 { if *f >= 0.0 { Number::UInt64(*f as u64) } else { Number::Int64(*f as i64) } } else { n.clone() }
        }
    }
}

fn deep_reencode(v: &Value<'static>) -> Value<'static> {
    match v {
        Value::Number(n) => Value::Number(reencode(n)),
        Value::Array(a) => Value::Array(a.iter().map(deep_reencode).collect()),
        Value::Object(o) => Value::Object(o.iter().map(|(k, x)| (k.clone(), deep_reencode(x))).collect()),
        _ => v.clone(),
    }
}

fn names_of(g: &mut Gen, v: &Value) -> Vec<u8> {
    let mut pool: Vec<String> = Vec::new();
    match v {
        Value::Object(o) => pool.extend(o.keys().cloned()),
        Value::Array(a) => for x in a { if let Value::String(s) = x { pool.push(s.to_string()); } },
        _ => {}
    }
    if pool.is_empty() || g.r.gen_range(0..5) == 0 {
        return g.key().into_bytes();
    }
    let k = g.pick(&pool).clone();
    match g.r.gen_range(0..5) {
        0 => k.to_uppercase().into_bytes(),
        1 => k.to_lowercase().into_bytes(),
        2 => format!("{k}x").into_bytes(),
        _ => k.into_bytes(),
    }
}

fn keypath_of(g: &mut Gen, v: &Value) -> J {
    let mut cur = v;
    let mut out = Vec::new();
    for _ in 0..g.r.gen_range(0..5) {
        match cur {
            Value::Array(a) => {
                let len = a.len() as i64;
                let i = match g.r.gen_range(0..6) { 0 => len, 1 => -len - 1, 2 => *g.pick(&[i32::MIN as i64, i32::MAX as i64]), _ => if len > 0 { g.r.gen_range(-len..len) } else { 0 } };
                out.push(json!({"i": i}));
                let p = if i >= 0 { i } else { len + i };
                if p >= 0 && p < len { cur = &a[p as usize]; } else { break; }
            }
            Value::Object(o) => {
                let keys: Vec<&String> = o.keys().collect();
                if keys.is_empty() || g.r.gen_range(0..6) == 0 {
                    out.push(json!({"n": bytes_to_j(g.key().as_bytes())}));
                    break;
                }
                let k = (*g.pick(&keys)).clone();
                // a key that reads as an integer, written as an index element: never a member access
                if let (Ok(n), 0) = (k.parse::<i32>(), g.r.gen_range(0..3)) {
                    out.push(json!({"i": n}));
                    break;
                }
                if g.r.gen() { out.push(json!({"n": bytes_to_j(k.as_bytes())})); } else { out.push(json!({"q": bytes_to_j(k.as_bytes())})); }
                cur = &o[&k];
            }
            _ => {
                if g.r.gen() { out.push(json!({"i": 0})); } else { out.push(json!({"n": bytes_to_j(b"a")})); }
                break;
            }
        }
    }
    J::Array(out)
}

fn keyset_of(g: &mut Gen, v: &Value) -> J {
    let mut ks: Vec<Vec<u8>> = Vec::new();
    if let Value::Object(o) = v {
        for k in o.keys() { if g.r.gen() { ks.push(k.as_bytes().to_vec()); } }
    }
    if g.r.gen_range(0..3) == 0 { ks.push(g.key().into_bytes()); }
    ks.sort();
    ks.dedup();
    J::Array(ks.iter().map(|k| bytes_to_j(k)).collect())
}

// a key list as a caller may pass it: unsorted, with repeats
fn keylist_of(g: &mut Gen, v: &Value) -> J {
    let mut ks: Vec<Vec<u8>> = Vec::new();
    if let Value::Object(o) = v {
        for k in o.keys() { if g.r.gen() { ks.push(k.as_bytes().to_vec()); } }
    }
    if let Value::Array(a) = v {
        for x in a { if let Value::String(s) = x { if g.r.gen() { ks.push(s.as_bytes().to_vec()); } } }
    }
    if g.r.gen_range(0..3) == 0 { ks.push(g.key().into_bytes()); }
    for _ in 0..g.r.gen_range(0..3) {
        if !ks.is_empty() { let k = g.pick(&ks).clone(); let at = g.r.gen_range(0..=ks.len()); ks.insert(at, k); }
    }
    J::Array(ks.iter().map(|k| bytes_to_j(k)).collect())
}

fn idx_of(g: &mut Gen, v: &Value) -> i64 {
    let len = match v { Value::Array(a) => a.len() as i64, _ => 1 };
    match g.r.gen_range(0..8) { 0 => i32::MIN as i64, 1 => i32::MAX as i64, 2 => len, 3 => -len - 1, 4 => -len, _ => g.r.gen_range(-len - 2..len + 3) }
}

// ---- random JSONPath syntax trees (the JSON form the harness turns into jsonb::jsonpath values)
fn rnd_index(g: &mut Gen) -> J {
    let v: i64 = match g.r.gen_range(0..8) { 0 => i32::MAX as i64, 1 => i32::MIN as i64 + 1, 2 => -1, _ => g.r.gen_range(-3..5) };
    if g.r.gen_range(0..3) == 0 { json!({"t":"l","v": v.clamp(-2147483647, 2147483647)}) } else { json!({"t":"n","v": v}) }
}
fn rnd_name(g: &mut Gen, v: &Value) -> J {
    let mut pool: Vec<String> = vec!["a".into(), "b".into(), "ab".into(), "id".into()];
    fn keys(v: &Value, out: &mut Vec<String>) {
        match v {
            Value::Object(o) => { for (k, x) in o { out.push(k.clone()); keys(x, out); } }
            Value::Array(a) => for x in a { keys(x, out) },
            _ => {}
        }
    }
    keys(v, &mut pool);
    bytes_to_j(g.pick(&pool).as_bytes())
}
fn rnd_nav(g: &mut Gen, v: &Value) -> J {
    match g.r.gen_range(0..8) {
        0 => json!({"p":"dotw"}),
        1 | 2 => json!({"p":"brw"}),
        3 => json!({"p":"dot","n": rnd_name(g, v)}),
        4 => json!({"p": *g.pick(&["colon", "objf", "dot"]),"n": rnd_name(g, v)}),
        _ => {
            let n = g.r.gen_range(1..4);
            let ix: Vec<J> = (0..n).map(|_| if g.r.gen_range(0..3) == 0 { json!({"x":"s","s": rnd_index(g),"e": rnd_index(g)}) } else { json!({"x":"i","i": rnd_index(g)}) }).collect();
            json!({"p":"idx","ix": ix})
        }
    }
}
fn rnd_literal(g: &mut Gen) -> J {
    match g.r.gen_range(0..6) {
        0 => json!({"v":"null"}),
        1 => json!({"v":"bool","b": g.r.gen_range(0..2)}),
        2 | 3 => { let mut n = num_to_j(&match g.r.gen_range(0..3) { 0 => Number::UInt64(g.r.gen_range(0..4)), 1 => Number::Int64(g.r.gen_range(-3..3)), _ => Number::Float64(g.r.gen_range(-4..6) as f64 / 2.0) }); n["v"] = json!("num"); n }
        _ => json!({"v":"str","s": bytes_to_j(g.pick(STR_POOL).as_bytes())}),
    }
}
fn rnd_operand(g: &mut Gen, v: &Value, root_only: bool) -> J {
    if g.r.gen_range(0..3) == 0 {
        json!({"e":"val","v": rnd_literal(g)})
    } else {
        let mut ps = vec![if root_only || g.r.gen_range(0..5) == 0 { json!({"p":"root"}) } else { json!({"p":"cur"}) }];
        for _ in 0..g.r.gen_range(0..3) { ps.push(rnd_nav(g, v)); }
        json!({"e":"paths","ps": ps})
    }
}
fn rnd_expr(g: &mut Gen, v: &Value, depth: u32, root_only: bool) -> J {
    match g.r.gen_range(0..8) {
        0 | 1 if depth > 0 => json!({"e":"bin","op": *g.pick(&["and", "or"]),"l": rnd_expr(g, v, depth - 1, root_only),"r": rnd_expr(g, v, depth - 1, root_only)}),
        2 => {
            let mut ps = vec![if root_only { json!({"p":"root"}) } else { json!({"p":"cur"}) }];
            for _ in 0..g.r.gen_range(0..3) { ps.push(rnd_nav(g, v)); }
            if depth > 0 && g.r.gen_range(0..3) == 0 { ps.push(json!({"p":"filter","e": rnd_expr(g, v, depth - 1, false)})); }
            json!({"e":"exists","ps": ps})
        }
        _ => json!({"e":"bin","op": *g.pick(&["eq", "ne", "lt", "le", "gt", "ge"]),"l": rnd_operand(g, v, root_only),"r": rnd_operand(g, v, root_only)}),
    }
}
fn rnd_path(g: &mut Gen, v: &Value) -> J {
    if g.r.gen_range(0..8) == 0 {
        return json!([{"p":"pred","e": rnd_expr(g, v, 1, true)}]);
    }
    let mut ps = vec![json!({"p":"root"})];
    for _ in 0..g.r.gen_range(0..4) {
        if g.r.gen_range(0..4) == 0 { ps.push(json!({"p":"filter","e": rnd_expr(g, v, 1, false)})); } else { ps.push(rnd_nav(g, v)); }
    }
    J::Array(ps)
}

fn pre_of(g: &mut Gen) -> J {
    let n = g.r.gen_range(0..9);
    J::Array((0..n).map(|_| J::from(g.r.gen::<u8>())).collect())
}

fn rp_vec(g: &mut Gen, n: usize, text: bool) -> J {
    J::Array((0..n).map(|_| if text { J::from(g.r.gen_range(0..4u64)) } else { J::from(0u64) }).collect())
}

pub fn script(kind_arg: &str, seed: u64, count: usize) -> Vec<J> {
    // "pairs:compare" fixes the operation of a two-document kind
    let (kind, fixed_op) = match kind_arg.split_once(':') {
        Some((k, o)) => (k, Some(o.to_string())),
        None => (kind_arg, None),
    };
    let mut out = Vec::new();
    let mut g = Gen::new(seed);
    let text = kind == "repr" || kind == "pairs_repr" || kind == "serde_repr";
    for n in 0..count {
        g.fl.clear();
        g.finite = matches!(kind, "render" | "repr" | "pairs_repr" | "text" | "serde" | "serde_repr");
        g.nice_floats = n % 4 != 0;
        let depth = if n % 7 == 0 { 4 } else { 3 };
        let mut d = g.doc(depth, 4);
        // now and then a wide document: hundreds of tiny elements, many of them empty containers
        if matches!(kind, "codec" | "decode" | "acc" | "edit") && n % 151 == 150 {
            let w = g.r.gen_range(530..700);
            let items: Vec<Value> = (0..w).map(|i| match (i + n) % 12 { 0 => Value::Null, 1 => Value::Number(Number::UInt64(i as u64)), 2 => Value::Bool(i % 2 == 0), k if k % 2 == 0 => Value::Array(vec![]), _ => Value::Object(BTreeMap::new()) }).collect();
            d = if g.r.gen() { Value::Array(items) } else { Value::Object(items.into_iter().enumerate().map(|(i, v)| (format!("k{i:03}"), v)).collect()) };
        }
        let t = value_to_tree(&d);
        let mut line = match kind {
            "rand" => json!({"op":"rand_value","a":{}}),
            "path" => {
                let mut a = json!({"path": rnd_path(&mut g, &d)});
                if n % 3 == 0 {
                    // into buffers that already hold an earlier result
                    a["pre"] = json!([32, 0, 0, 0, 64, 0, 0, 0]);
                    a["preoffs"] = json!([8]);
                }
                json!({"op":"select","d":[t],"a":a})
            }
            "codec" => {
                if n % 2 == 0 { json!({"op":"roundtrip","d":[t],"a":{}}) } else { json!({"op":"to_vec","d":[t],"a":{"pre":pre_of(&mut g)}}) }
            }
            "render" => json!({"op":"render","d":[t],"a":{}}),
            "serde_repr" if n % 9 == 4 => {
                // text whose number overflows the double range (an error for serde), followed by ordinary calls
                let sp = g.r.gen_range(0..3);
                let mut b = render_text(&d, sp, &g.fl_json());
                let extra: &[u8] = *g.pick(&[b"1e999".as_slice(), b"-1e400", b"[1,1e999]", b"{\"big\":[1,1e999]}", b"1e308", b"[0e999]"]);
                if g.r.gen() { b = extra.to_vec(); } else { b = [b"[".as_slice(), &b, b",", extra, b"]"].concat(); }
                json!({"op":"serde_raw","raw":[bytes_to_j(&b)],"a":{}})
            }
            "serde" | "serde_repr" => json!({"op":"serde","d":[t],"a":{}}),
            "acc" | "repr" if n % 3 != 2 => {
                let a = match n % 12 {
                    0 => json!({"op":"get_by_index","a":{"i": g.r.gen_range(0..6)}}),
                    1 => json!({"op":"get_by_name","a":{"n": bytes_to_j(&names_of(&mut g, &d)), "ic": g.r.gen_range(0..2)}}),
                    3 => json!({"op":"get_by_keypath","a":{"kp": keypath_of(&mut g, &d)}}),
                    4 => json!({"op": *g.pick(&["array_length","object_keys","object_each","array_values","type_of"]),"a":{}}),
                    6 => json!({"op":"casts","a":{}}),
                    7 => json!({"op":"exists_keys","a":{"keys": if g.r.gen() { keyset_of(&mut g, &d) } else { keylist_of(&mut g, &d) }, "all": g.r.gen_range(0..2)}}),
                    9 => json!({"op":"traverse","a":{"pred": {"eq": bytes_to_j(&names_of(&mut g, &d))}}}),
                    _ => json!({"op":"traverse","a":{"pred": {"has": g.r.gen_range(0..128)}}}),
                };
                let mut a = a;
                // casts and type names are interesting on scalars too
                let dd = if a["op"] == "casts" && g.r.gen() { let s = g.scalar(); value_to_tree(&s) } else { t };
                a["d"] = json!([dd]);
                a
            }
            "acc" | "repr" | "edit" => {
                let pre = pre_of(&mut g);
                let nv = g.doc(1, 2);
                match g.r.gen_range(0..10) {
                    0 => json!({"op":"delete_by_name","d":[t],"a":{"n": bytes_to_j(&names_of(&mut g, &d)), "pre":pre}}),
                    1 => json!({"op":"delete_by_index","d":[t],"a":{"i": idx_of(&mut g, &d), "pre":pre}}),
                    2 => json!({"op":"delete_by_keypath","d":[t],"a":{"kp": keypath_of(&mut g, &d), "pre":pre}}),
                    3 => json!({"op":"strip_nulls","d":[t],"a":{"pre":pre}}),
                    4 => json!({"op": *g.pick(&["object_delete","object_pick"]),"d":[t],"a":{"keys": keyset_of(&mut g, &d), "pre":pre}}),
                    5 => json!({"op":"array_insert","d":[t, value_to_tree(&nv)],"a":{"pos": idx_of(&mut g, &d), "pre":pre}}),
                    6 => json!({"op":"object_insert","d":[t, value_to_tree(&nv)],"a":{"n": bytes_to_j(&names_of(&mut g, &d)), "upd": g.r.gen_range(0..2), "pre":pre}}),
                    7 => json!({"op":"array_distinct","d":[t],"a":{"pre":pre}}),
                    8 => {
                        let parts: Vec<Value> = (0..g.r.gen_range(0..4)).map(|_| g.doc(1, 2)).collect();
                        json!({"op":"build_array","d": parts.iter().map(value_to_tree).collect::<Vec<_>>(),"a":{"pre":pre}})
                    }
                    _ => {
                        let np = if g.r.gen_range(0..6) == 0 { g.r.gen_range(21..45) } else { g.r.gen_range(0..4) };
                        let parts: Vec<Value> = (0..np).map(|_| if np > 4 { g.scalar() } else { g.doc(1, 2) }).collect();
                        let keys: Vec<J> = parts.iter().map(|_| bytes_to_j(g.key().as_bytes())).collect();
                        json!({"op":"build_object","d": parts.iter().map(value_to_tree).collect::<Vec<_>>(),"a":{"keys":keys, "pre":pre}})
                    }
                }
            }
            "pairs" | "pairs_repr" => {
                // size asymmetry x order (C13-R9A): for the array set functions one operand in four is a shuffled
                // multiple of the other's elements, two to eight times as long, with fresh scalars mixed in
                let asym = fixed_op.as_deref().map_or(false, |o| o.starts_with("array_")) && g.r.gen_range(0..4) == 0;
                let e = match &d {
                    Value::Array(a) if asym && !a.is_empty() => {
                        let target = a.len() * g.r.gen_range(2..9);
                        let mut b: Vec<Value<'static>> = Vec::new();
                        while b.len() < target { if g.r.gen_range(0..3) == 0 { b.push(g.scalar()); } else { let i = g.r.gen_range(0..a.len()); b.push(a[i].clone()); } }
                        for i in (1..b.len()).rev() { let j = g.r.gen_range(0..=i); b.swap(i, j); }
                        Value::Array(b)
                    }
                    _ => if g.r.gen_range(0..4) == 0 { g.doc(3, 3) } else { g.mutate(&d) },
                };
                let op: &str = match &fixed_op {
                    Some(o) => o.as_str(),
                    None => *g.pick(&["compare", "contains", "comparable2", "concat", "array_intersection", "array_except", "array_overlap"]),
                };
                let mut a = json!({});
                if matches!(op, "concat" | "array_intersection" | "array_except") { a["pre"] = pre_of(&mut g); }
                if g.r.gen() { json!({"op":op,"d":[t, value_to_tree(&e)],"a":a}) } else { json!({"op":op,"d":[value_to_tree(&e), t],"a":a}) }
            }
            "num" => match n % 3 {
                0 => json!({"op":"num","a":{"n": num_to_j(&g.number())}}),
                1 => {
                    let x = g.number();
                    let y = if g.r.gen() { reencode(&x) } else { g.number() };
                    json!({"op":"num_cmp","a":{"x": num_to_j(&x), "y": num_to_j(&y)}})
                }
                _ => {
                    let mut p: Vec<u8> = Vec::new();
                    let _ = g.number().compact_encode(&mut p);
                    match g.r.gen_range(0..4) { 0 => { p.pop(); } 1 => p.push(g.r.gen()), 2 => { if !p.is_empty() { p[0] = g.r.gen(); } } _ => {} }
                    json!({"op":"num_decode","raw":[bytes_to_j(&p)],"a":{}})
                }
            },
            "syntax" => {
                // token soups of the path languages: accepted or rejected, never a panic
                const TOK: &[&str] = &["$", "@", ".", ":", "a", "ab", "[", "]", "*", ".*", "[*]", "?(", "(", ")", "==", "!=", "<", "<=", ">", ">=", "<>", "&&", "||", "\"", "\\", "\\u", "\\u{", "}", "{", ",",
                                       "0", "1", "-1", "2147483648", "1.5", "1e3", "last", "LAST", "to", "-", "+", " ", "\t", "\n", "exists", "null", "true", "\"a\"", "\"\"", "é", "0041", "D800", "'"];
                let n = g.r.gen_range(1..12);
                let mut s = String::new();
                for _ in 0..n { let t: &str = *g.pick(TOK); s.push_str(t); }
                let op = if g.r.gen() { "jp_parse" } else { "kp_parse" };
                json!({"op": op, "raw": [bytes_to_j(s.as_bytes())], "a": {"expect": "any"}})
            }
            "text" if n % 6 == 5 => {
                // raw bytes
                let len = g.r.gen_range(0..24);
                let b: Vec<u8> = (0..len).map(|_| if g.r.gen_range(0..3) == 0 { g.r.gen() } else { *g.pick(b"[]{},:\"\\u0123456789-+.eEtrufalsn \n\x0c") }).collect();
                json!({"op":"parse_value","raw":[bytes_to_j(&b)],"a":{}})
            }
            "text" => {
                let sp = g.r.gen_range(0..3);
                let mut b = render_text(&d, sp, &g.fl_json());
                let _ = &b;
                match g.r.gen_range(0..6) {
                    0 if !b.is_empty() => { let i = g.r.gen_range(0..b.len()); b[i] = g.r.gen(); }
                    1 if !b.is_empty() => { let i = g.r.gen_range(0..b.len()); b.remove(i); }
                    2 => { let i = g.r.gen_range(0..=b.len()); b.insert(i, *g.pick(b"[]{},:\"\\ue0-.1 \n\x0c")); }
                    3 if !b.is_empty() => { let i = g.r.gen_range(0..b.len()); b.truncate(i); }
                    _ => {}
                }
                json!({"op":"parse_value","raw":[bytes_to_j(&b)],"a":{}})
            }
            "decode" => {
                let mut b = encode_value(&d);
                let a = match g.r.gen_range(0..6) {
                    0 => json!({"intact": t}),
                    1 if b.len() > 1 => { let k = g.r.gen_range(0..b.len()); b.truncate(k); json!({"of": t, "cut": k}) }
                    2 => { let n = g.r.gen_range(0..24); b = (0..n).map(|_| g.r.gen()).collect(); json!({}) }
                    _ => {
                        for _ in 0..g.r.gen_range(1..4) {
                            if b.is_empty() { break; }
                            let i = g.r.gen_range(0..b.len());
                            match g.r.gen_range(0..4) { 0 => b[i] ^= 1 << g.r.gen_range(0..8), 1 => b[i] = g.r.gen(), 2 => { b.remove(i); } _ => b.insert(i, g.r.gen()) }
                        }
                        json!({})
                    }
                };
                // keep the decoder's pre-allocation independent of the host
                if !b.is_empty() && b[0] & 0x1f != 0 { b[0] &= 0xe0; }
                json!({"op":"decode","raw":[bytes_to_j(&b)],"a":a})
            }
            _ => panic!("unknown drive kind {kind}"),
        };
        if line.get("d").is_some() {
            let nd = line["d"].as_array().unwrap().len();
            let all_finite = true;
            if text && all_finite && !matches!(line["op"].as_str().unwrap(), "build_array" | "build_object" | "to_vec" | "roundtrip") {
                line["rp"] = rp_vec(&mut g, nd, true);
            }
            // lexemes for every finite float of every document argument
            let mut fl: Vec<J> = Vec::new();
            fn walk(t: &J, fl: &mut Vec<J>) {
                match t["k"].as_str().unwrap_or("") {
                    "num" if t["r"] == "f" => {
                        let b = j_to_bytes(&t["b"]);
                        let f = f64::from_bits(u64::from_be_bytes(b.as_slice().try_into().unwrap()));
                        if f.is_finite() && !fl.iter().any(|p| p[0] == t["b"]) {
                            fl.push(json!([t["b"].clone(), bytes_to_j(format!("{:?}", f).as_bytes())]));
                        }
                    }
                    "arr" => for x in t["a"].as_array().unwrap() { walk(x, fl) },
                    "obj" => for kv in t["o"].as_array().unwrap() { walk(&kv[1], fl) },
                    _ => {}
                }
            }
            for t in line["d"].as_array().unwrap() { walk(t, &mut fl); }
            line["fl"] = J::Array(fl);
        }
        out.push(line);
    }
    out
}
