// Deep-nesting probes (C20).  Each probe runs in a child process, inside a thread with the
// default 8 MiB main-thread stack size, so that stack exhaustion is observed as the child's
// death and never takes the harness down.  Inputs are built without recursion.
use jsonb::Value;

pub fn deep_text(shape: &str, depth: usize) -> Vec<u8> {
    let mut s = Vec::with_capacity(depth * 6 + 8);
    for i in 0..depth {
        match shape {
            "arr" => s.push(b'['),
            "obj" => s.extend_from_slice(b"{\"a\":"),
            _ => {
                if i % 2 == 0 { s.push(b'[') } else { s.extend_from_slice(b"{\"a\":") }
            }
        }
    }
    s.extend_from_slice(b"1");
    for i in (0..depth).rev() {
        match shape {
            "arr" => s.push(b']'),
            "obj" => s.push(b'}'),
            _ => {
                if i % 2 == 0 { s.push(b']') } else { s.push(b'}') }
            }
        }
    }
    s
}

// the JSONB encoding of the same document, written outermost first
pub fn deep_jsonb(shape: &str, depth: usize) -> Vec<u8> {
    let is_obj = |i: usize| shape == "obj" || (shape == "mix" && i % 2 == 1);
    // innermost scalar 1 as an entry: number jentry len 2, payload 0x50 0x01
    let mut lens = vec![0usize; depth + 1]; // lens[i] = encoded length of level i container (i = depth: none)
    let mut inner = 0usize; // length of the container at level i+1, or 0 at the bottom
    for i in (0..depth).rev() {
        let payload = if i == depth - 1 { 2 } else { inner };
        let l = if is_obj(i) { 4 + 4 + 4 + 1 + payload } else { 4 + 4 + payload };
        lens[i] = l;
        inner = l;
    }
    let mut out = Vec::with_capacity(lens.first().copied().unwrap_or(0) + 16);
    if depth == 0 {
        out.extend_from_slice(&[0x20, 0, 0, 0, 0x20, 0, 0, 2, 0x50, 1]);
        return out;
    }
    for i in 0..depth {
        let child_entry: u32 = if i == depth - 1 { 0x2000_0000 | 2 } else { 0x5000_0000 | lens[i + 1] as u32 };
        if is_obj(i) {
            out.extend_from_slice(&0x4000_0001u32.to_be_bytes());
            out.extend_from_slice(&0x1000_0001u32.to_be_bytes());
            out.extend_from_slice(&child_entry.to_be_bytes());
            out.push(b'a');
        } else {
            out.extend_from_slice(&0x8000_0001u32.to_be_bytes());
            out.extend_from_slice(&child_entry.to_be_bytes());
        }
    }
    out.extend_from_slice(&[0x50, 1]);
    out
}

pub fn deep_value(shape: &str, depth: usize) -> Value<'static> {
    let mut v = Value::Number(jsonb::Number::UInt64(1));
    for i in (0..depth).rev() {
        let obj = shape == "obj" || (shape == "mix" && i % 2 == 1);
        if obj {
            let mut m = std::collections::BTreeMap::new();
            m.insert("a".to_string(), v);
            v = Value::Object(m);
        } else {
            v = Value::Array(vec![v]);
        }
    }
    v
}

fn deep_path_text(depth: usize) -> Vec<u8> {
    // $?( ((( ... @ == 1 ... ))) )
    let mut s = b"$?(".to_vec();
    for _ in 0..depth { s.push(b'('); }
    s.extend_from_slice(b"@ == 1");
    for _ in 0..depth { s.push(b')'); }
    s.push(b')');
    s
}

// returns "ok" or "err"
pub fn probe(routine: &str, shape: &str, depth: usize) -> &'static str {
    let bin = deep_jsonb(shape, depth);
    let r = |ok: bool| if ok { "ok" } else { "err" };
    match routine {
        "parse_value" => {
            let t = deep_text(shape, depth);
            let res = jsonb::parse_value(&t);
            let ok = res.is_ok();
            std::mem::forget(res); // dropping is its own routine
            r(ok)
        }
        "parse_and_drop" => {
            let t = deep_text(shape, depth);
            r(jsonb::parse_value(&t).is_ok())
        }
        "drop_value" => {
            let v = deep_value(shape, depth);
            drop(v);
            "ok"
        }
        "to_vec" => {
            let v = deep_value(shape, depth);
            let b = v.to_vec();
            std::mem::forget(v);
            r(!b.is_empty())
        }
        "from_slice" => {
            let res = jsonb::from_slice(&bin);
            let ok = res.is_ok();
            std::mem::forget(res);
            r(ok)
        }
        "to_string" => r(!jsonb::to_string(&bin).is_empty()),
        "to_pretty_string" => r(!jsonb::to_pretty_string(&bin).is_empty()),
        "compare" => r(jsonb::compare(&bin, &bin).is_ok()),
        "compare_text" => {
            let t = deep_text(shape, depth);
            r(jsonb::compare(&t, &bin).is_ok())
        }
        "contains" => r(jsonb::contains(&bin, &bin) || true),
        "strip_nulls" => {
            let mut buf = Vec::new();
            r(jsonb::strip_nulls(&bin, &mut buf).is_ok())
        }
        "comparable" => {
            let mut buf = Vec::new();
            jsonb::convert_to_comparable(&bin, &mut buf);
            "ok"
        }
        "traverse" => r(jsonb::traverse_check_string(&bin, |s| s == b"zz") || true),
        "type_of" => r(jsonb::type_of(&bin).is_ok()),
        "array_length" => { let _ = jsonb::array_length(&bin); "ok" }
        "get_by_index" => { let _ = jsonb::get_by_index(&bin, 0); "ok" }
        "get_by_keypath" => {
            let kp: Vec<jsonb::keypath::KeyPath> = (0..depth.min(100_000)).map(|i| {
                if shape == "obj" || (shape == "mix" && i % 2 == 1) { jsonb::keypath::KeyPath::Name("a".into()) } else { jsonb::keypath::KeyPath::Index(0) }
            }).collect();
            let _ = jsonb::get_by_keypath(&bin, kp.iter());
            "ok"
        }
        "delete_by_keypath" => {
            let kp: Vec<jsonb::keypath::KeyPath> = (0..depth.min(100_000)).map(|i| {
                if shape == "obj" || (shape == "mix" && i % 2 == 1) { jsonb::keypath::KeyPath::Name("a".into()) } else { jsonb::keypath::KeyPath::Index(0) }
            }).collect();
            let mut buf = Vec::new();
            r(jsonb::delete_by_keypath(&bin, kp.iter(), &mut buf).is_ok())
        }
        "select_root" => {
            let p = jsonb::jsonpath::parse_json_path(b"$").unwrap();
            let mut d = Vec::new(); let mut o = Vec::new();
            r(jsonb::get_by_path(&bin, p, &mut d, &mut o).is_ok())
        }
        "select_wild" => {
            let p = jsonb::jsonpath::parse_json_path(b"$[*].*[*]").unwrap();
            let mut d = Vec::new(); let mut o = Vec::new();
            r(jsonb::get_by_path(&bin, p, &mut d, &mut o).is_ok())
        }
        "select_filter" => {
            let p = jsonb::jsonpath::parse_json_path(b"$?(@[*] == 1 || exists(@.a))").unwrap();
            let mut d = Vec::new(); let mut o = Vec::new();
            r(jsonb::get_by_path(&bin, p, &mut d, &mut o).is_ok())
        }
        "to_serde_json" => {
            let res = jsonb::to_serde_json(&bin);
            let ok = res.is_ok();
            std::mem::forget(res);
            r(ok)
        }
        "jp_parse_parens" => {
            let t = deep_path_text(depth);
            let res = jsonb::jsonpath::parse_json_path(&t);
            let ok = res.is_ok();
            std::mem::forget(res);
            r(ok)
        }
        "concat" => {
            let mut buf = Vec::new();
            r(jsonb::concat(&bin, &bin, &mut buf).is_ok())
        }
        "array_distinct" => {
            let mut buf = Vec::new();
            r(jsonb::array_distinct(&bin, &mut buf).is_ok())
        }
        _ => "unknown-routine",
    }
}

pub fn run_child(routine: &str, shape: &str, depth: usize) {
    let routine = routine.to_string();
    let shape = shape.to_string();
    let h = std::thread::Builder::new()
        .stack_size(8 << 20)
        .spawn(move || probe(&routine, &shape, depth))
        .expect("spawn");
    match h.join() {
        Ok(s) => println!("{s}"),
        Err(_) => println!("panic"),
    }
}
