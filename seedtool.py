#!/usr/bin/env python3
"""Seeded-change bookkeeping.

  seedtool.py confirm C05 A        confirm a sub-agent's change in a scratch worktree and keep it
                                   as /verif/seeded/C05-A/ (patch.diff, demo.rs, meta.json)
  seedtool.py run C05-A [C05 ...]  apply the kept change to /repo, run the quick checks of the given
                                   properties (default: the one it breaks), undo it straight away
"""
import json, os, shutil, subprocess, sys, time

ROOT = os.path.dirname(os.path.abspath(__file__))
SCRATCH = os.environ.get("SEED_SCRATCH", "/tmp/seedconfirm/wt")


def sh(cmd, cwd=None, timeout=1800):
    r = subprocess.run(cmd, shell=True, cwd=cwd, stdout=subprocess.PIPE, stderr=subprocess.STDOUT, text=True, timeout=timeout)
    return r.returncode, r.stdout


def failing_tests(out):
    return sorted(l.split()[1] for l in out.splitlines() if l.startswith("test ") and l.rstrip().endswith("FAILED"))


def confirm(pid, x, base="/tmp/seed", tag=""):
    src = f"{base}/{pid}/out/{x}"
    patch = os.path.join(src, "patch.diff")
    demo = os.path.join(src, "demo.rs")
    os.makedirs(os.path.dirname(SCRATCH), exist_ok=True)
    if not os.path.isdir(SCRATCH):
        rc, out = sh(f"git -C /repo worktree add -q --detach {SCRATCH} HEAD")
        assert rc == 0, out
    sh("git checkout -q --detach $(git -C /repo rev-parse HEAD) && git checkout -- . && rm -f tests/demo.rs", cwd=SCRATCH)
    res = {}
    shutil.copy(demo, os.path.join(SCRATCH, "tests", "demo.rs"))
    rc, out = sh("cargo test --offline --test demo 2>&1", cwd=SCRATCH)
    res["demo_clean_passes"] = rc == 0 and "test result: ok" in out
    rc, out = sh(f"git apply {patch} || git apply -3 {patch}", cwd=SCRATCH)
    res["applies"] = rc == 0
    if rc != 0:
        print(out)
    rc, out = sh("cargo test --offline --no-fail-fast 2>&1", cwd=SCRATCH)
    # the demo target is part of the run; separate the repository's own tests from it
    rc2, out2 = sh("cargo test --offline --no-fail-fast --lib --test it 2>&1", cwd=SCRATCH)
    res["suite_failures_with_patch"] = failing_tests(out2)
    res["suite_unchanged"] = failing_tests(out2) == ["functions::test_to_serde_json"] and "error: could not compile" not in out2
    rc, out = sh("cargo test --offline --test demo 2>&1", cwd=SCRATCH)
    res["demo_patched_fails"] = rc != 0 and "could not compile" not in out
    sh("git checkout -- . ; git reset -q --hard ; rm -f tests/demo.rs", cwd=SCRATCH)
    ok = all([res["demo_clean_passes"], res["applies"], res["suite_unchanged"], res["demo_patched_fails"]])
    print(pid, x, "CONFIRMED" if ok else "REJECTED", res)
    if ok:
        dst = os.path.join(ROOT, "seeded", f"{pid}-{tag}{x}")
        os.makedirs(dst, exist_ok=True)
        # keep the patch as it applies to the current /repo HEAD
        sh(f"git apply {patch} || git apply -3 {patch}", cwd=SCRATCH)
        rc, diff = sh("git diff HEAD", cwd=SCRATCH)
        open(os.path.join(dst, "patch.diff"), "w").write(diff)
        sh("git checkout -- . ; git reset -q --hard", cwd=SCRATCH)
        shutil.copy(demo, os.path.join(dst, "demo.rs"))
        meta = json.load(open(os.path.join(src, "meta.json")))
        meta["breaks_property"] = pid
        meta["confirmed_by_me"] = {"at_repo_head": sh("git -C /repo rev-parse --short HEAD")[1].strip(), **res,
                                   "ran": "scratch worktree: demo on clean tree passes; patch applied: cargo test --lib --test it unchanged (only functions::test_to_serde_json fails), demo fails"}
        json.dump(meta, open(os.path.join(dst, "meta.json"), "w"), indent=1)
    return ok


def run(name, props):
    d = os.path.join(ROOT, "seeded", name)
    pid = name.split("-")[0]
    props = props or [pid]
    rc, out = sh("git -C /repo status --porcelain")
    assert out.strip() == "", "/repo not clean: " + out
    rc, out = sh(f"git -C /repo apply {d}/patch.diff")
    assert rc == 0, out
    results = {}
    try:
        for p in props:
            t = time.time()
            rc, out = sh(f"./check {p} quick 2>&1", cwd=ROOT, timeout=3600)
            viol = [l for l in out.splitlines() if l.startswith("VIOLATION")]
            results[p] = {"exit": rc, "violations": len(viol), "s": round(time.time() - t)}
            print(name, p, "exit", rc, "violations", len(viol), f"{time.time()-t:.0f}s")
            if rc == 2:
                print(out[-1500:])
    finally:
        sh("git -C /repo checkout -- .")
    mp = os.path.join(d, "meta.json")
    meta = json.load(open(mp))
    meta.setdefault("detection", {}).update({p: ("DETECTED" if r["exit"] == 1 else "missed" if r["exit"] == 0 else "tool-error") for p, r in results.items()})
    json.dump(meta, open(mp, "w"), indent=1)
    return results


if __name__ == "__main__":
    if sys.argv[1] == "confirm":
        if len(sys.argv) > 4:
            confirm(sys.argv[2], sys.argv[3], sys.argv[4], sys.argv[5] if len(sys.argv) > 5 else "")
        else:
            confirm(sys.argv[2], sys.argv[3])
    elif sys.argv[1] == "run":
        run(sys.argv[2], sys.argv[3:])
